#!/bin/sh
# usage: tools/seeds_report.sh [all|fast|kani] > selftest/results.txt
# self-test: every seeded defect and own canary against its property.  Runs from wherever this copy of /verif lives
# (take a snapshot with rsync to keep working on /verif meanwhile); patches are applied to scratch worktrees of /repo.
HERE=$(dirname "$(readlink -f "$0")")/..
cd "$HERE"
MODE=${1:-all}
iskani() { case "$1" in C02|C03|C07|C08|C11) return 0;; *) return 1;; esac; }
want() { if [ "$MODE" = all ]; then return 0; fi; if iskani "$1"; then [ "$MODE" = kani ]; else [ "$MODE" = fast ]; fi; }
for d in seeded/*/; do
  id=$(basename $d); prop=${id%-*}
  case "$prop" in C16|C05) continue;; esac
  want $prop || continue
  if git -C /repo apply --check "$PWD/$d/patch.diff" 2>/dev/null; then
    res=$(tools/mutant.sh "$d/patch.diff" $prop 2>&1 | grep -E "VIOLATION|obligation:|UNDECIDED|tier=" | head -4 | tr '\n' ' ')
  else
    res="patch no longer applies to /repo HEAD"
  fi
  echo "$id :: $res"
done
for f in selftest/*.diff; do
  id=$(basename $f .diff)
  case "$id" in m_d01*) prop=C03;; m_d04*) prop=C04;; m_d14*) prop=C20;; m_c02*) prop=C02;; m_d16*|m_d17*) prop=C14;; *) prop=C03;; esac
  want $prop || continue
  res=$(tools/mutant.sh "$f" $prop 2>&1 | grep -E "VIOLATION|obligation:|UNDECIDED|tier=" | head -4 | tr '\n' ' ')
  echo "$id ($prop) :: $res"
done
