#!/bin/sh
# usage: tools/seeds_report.sh > selftest/results.txt    (self-test: every seeded defect and own canary against its property)
cd /verif
for d in seeded/*/; do
  id=$(basename $d); prop=${id%-*}
  case "$prop" in C14|C16|C19|C05) continue;; esac
  if git -C /repo apply --check "/verif/$d/patch.diff" 2>/dev/null; then
    res=$(tools/mutant.sh "$d/patch.diff" $prop 2>&1 | grep -E "VIOLATION|obligation:|UNDECIDED|tier=" | head -4 | tr '\n' ' ')
  else
    res="patch no longer applies to /repo HEAD"
  fi
  echo "$id :: $res"
done
for f in selftest/*.diff; do
  id=$(basename $f .diff)
  case "$id" in m_d01*) prop=C03;; m_d04*) prop=C04;; m_d14*) prop=C20;; m_c02*) prop=C02;; *) prop=C03;; esac
  res=$(tools/mutant.sh "$f" $prop 2>&1 | grep -E "VIOLATION|obligation:|UNDECIDED|tier=" | head -4 | tr '\n' ' ')
  echo "$id ($prop) :: $res"
done
