"""Minimal Rust source scanner: locates items and functions by name with a
brace / string / comment aware matcher.  It never rewrites anything: callers
get (start, end) byte offsets into the original text.
"""
import re


class ScanError(Exception):
    pass


def _skip_trivia_map(src):
    """Return a list `code` of booleans: code[i] is True when src[i] is plain
    code (not inside a comment, string or char literal)."""
    n = len(src)
    code = [True] * n
    i = 0
    while i < n:
        c = src[i]
        if c == '/' and i + 1 < n and src[i + 1] == '/':
            j = src.find('\n', i)
            if j < 0:
                j = n
            for k in range(i, j):
                code[k] = False
            i = j
            continue
        if c == '/' and i + 1 < n and src[i + 1] == '*':
            depth = 1
            j = i + 2
            while j < n and depth > 0:
                if src.startswith('/*', j):
                    depth += 1
                    j += 2
                elif src.startswith('*/', j):
                    depth -= 1
                    j += 2
                else:
                    j += 1
            for k in range(i, j):
                code[k] = False
            i = j
            continue
        if c == '"' or (c == 'b' and i + 1 < n and src[i + 1] == '"'
                        and not (i > 0 and (src[i - 1].isalnum() or src[i - 1] == '_'))):
            j = i + (2 if c == 'b' else 1)
            while j < n and src[j] != '"':
                if src[j] == '\\':
                    j += 1
                j += 1
            j += 1
            for k in range(i, min(j, n)):
                code[k] = False
            i = j
            continue
        if c == 'r' and not (i > 0 and (src[i - 1].isalnum() or src[i - 1] == '_')):
            m = re.match(r'r(#*)"', src[i:i + 12])
            if m:
                hashes = m.group(1)
                term = '"' + hashes
                j = src.find(term, i + len(m.group(0)))
                if j < 0:
                    raise ScanError('unterminated raw string')
                j += len(term)
                for k in range(i, j):
                    code[k] = False
                i = j
                continue
        if c == "'":
            # char literal or lifetime
            m = re.match(r"'(\\x[0-9a-fA-F]{2}|\\u\{[0-9a-fA-F_]+\}|\\.|[^\\'])'", src[i:i + 14])
            if m:
                j = i + len(m.group(0))
                for k in range(i, j):
                    code[k] = False
                i = j
                continue
        i += 1
    return code


class Source:
    def __init__(self, path, text=None):
        self.path = path
        self.text = text if text is not None else open(path, encoding='utf-8').read()
        self.code = _skip_trivia_map(self.text)

    def match_brace(self, open_pos):
        """open_pos indexes a '{', '(' or '['; returns index of its partner."""
        pairs = {'{': '}', '(': ')', '[': ']'}
        o = self.text[open_pos]
        c = pairs[o]
        depth = 0
        for i in range(open_pos, len(self.text)):
            if not self.code[i]:
                continue
            ch = self.text[i]
            if ch == o:
                depth += 1
            elif ch == c:
                depth -= 1
                if depth == 0:
                    return i
        raise ScanError('unbalanced %s at %d in %s' % (o, open_pos, self.path))

    def find_code(self, regex, start=0, end=None):
        """Iterate regex matches that begin in plain code."""
        end = len(self.text) if end is None else end
        for m in re.finditer(regex, self.text[:end]):
            if m.start() >= start and self.code[m.start()]:
                yield m

    def line_of(self, pos):
        return self.text.count('\n', 0, pos) + 1

    # ---- items -------------------------------------------------------
    def _item_start(self, pos):
        """Extend backwards from `pos` (start of the keyword line) over
        attribute lines and doc comments directly above."""
        text = self.text
        ls = text.rfind('\n', 0, pos) + 1
        start = ls
        while True:
            pe = start - 1
            if pe <= 0:
                break
            ps = text.rfind('\n', 0, pe) + 1
            line = text[ps:pe].strip()
            if line.startswith('#[') or line.startswith('///') or line.startswith('#!['):
                start = ps
            else:
                break
        return start

    def find_block(self, header_regex, start=0, end=None):
        """Find `header_regex ... {` and return (hdr_start, open_brace, close_brace)."""
        for m in self.find_code(header_regex, start, end):
            i = m.end()
            # find first '{' or ';' in code at paren depth 0
            depth = 0
            while i < len(self.text):
                if self.code[i]:
                    ch = self.text[i]
                    if ch in '([':
                        depth += 1
                    elif ch in ')]':
                        depth -= 1
                    elif ch == '{' and depth == 0:
                        return m.start(), i, self.match_brace(i)
                    elif ch == ';' and depth == 0:
                        return m.start(), None, i
                i += 1
        return None

    def find_impl(self, header):
        """`header` is the literal text of the impl header up to (not
        including) the '{', whitespace-insensitive, e.g. 'impl<T> Stack<T>'."""
        want = re.sub(r'\s+', ' ', header.strip())
        for m in self.find_code(r'(?m)^[ \t]*(?:unsafe\s+)?impl\b'):
            i = m.end()
            depth = 0
            while i < len(self.text):
                if self.code[i]:
                    ch = self.text[i]
                    if ch == '{':
                        break
                i += 1
            hdr = re.sub(r'\s+', ' ', self.text[m.start():i].strip())
            if hdr == want:
                return m.start(), i, self.match_brace(i)
        raise ScanError('impl header not found: %r in %s' % (header, self.path))

    def find_fn(self, name, start=0, end=None):
        """Locate `fn name` (name may be r#raw) inside [start,end).
        Returns dict(start, sig_start, body_open, body_close)."""
        rx = r'(?m)^[ \t]*(?:pub(?:\([a-z:_ ]+\))?\s+)?(?:const\s+)?(?:unsafe\s+)?fn\s+' + re.escape(name) + r'\b'
        for m in self.find_code(rx, start, end):
            i = m.end()
            depth = 0
            while i < len(self.text):
                if self.code[i]:
                    ch = self.text[i]
                    if ch in '([':
                        depth += 1
                    elif ch in ')]':
                        depth -= 1
                    elif ch == '{' and depth == 0:
                        close = self.match_brace(i)
                        return dict(start=self._item_start(m.start()),
                                    sig_start=m.start(), body_open=i,
                                    body_close=close)
                    elif ch == ';' and depth == 0:
                        break
                i += 1
        raise ScanError('fn %s not found in %s' % (name, self.path))

    def find_item(self, kind, name):
        """kind in struct|enum|type|const|macro_rules|trait|static"""
        if kind == 'macro_rules':
            rx = r'(?m)^[ \t]*macro_rules!\s*' + re.escape(name) + r'\b'
        else:
            rx = r'(?m)^[ \t]*(?:pub(?:\([a-z:_ ]+\))?\s+)?' + kind + r'\s+' + re.escape(name) + r'\b'
        r = self.find_block(rx)
        if r is None:
            raise ScanError('%s %s not found in %s' % (kind, name, self.path))
        hs, ob, cb = r
        return self._item_start(hs), cb + 1

    def loops(self, start, end):
        """Offsets of the '{' opening the body of each loop (for/while/loop)
        between start and end, in source order, with the keyword offset."""
        out = []
        for m in self.find_code(r'\b(for|while|loop)\b', start, end):
            kw = m.group(1)
            # `for` inside `impl ... for` / HRTB is not a loop: require that a
            # body brace follows before a ';' at depth 0
            i = m.end()
            depth = 0
            ok = None
            while i < end:
                if self.code[i]:
                    ch = self.text[i]
                    if ch in '([':
                        depth += 1
                    elif ch in ')]':
                        depth -= 1
                    elif ch == '{' and depth == 0:
                        # struct-literal braces in loop headers are not used in this code base
                        ok = i
                        break
                    elif ch == ';' and depth == 0:
                        break
                i += 1
            if ok is not None:
                out.append((m.start(), ok, kw))
        return out
