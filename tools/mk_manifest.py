#!/usr/bin/env python3
"""Regenerates MANIFEST.json from the claim table below (kept in one place so the
manifest stays valid and consistent with DESIGN.md)."""
import json
import os

VERIF = os.path.dirname(os.path.dirname(os.path.abspath(__file__)))

TRUST = ('Trusted: Verus (VIR/AIR/z3) and Kani (CBMC/CaDiCaL) tool chains; vstd specs of std; the assumed '
         'contracts (external_body / assume_specification) enumerated in evidence.coverage.trusted_base; functions '
         'outside evidence.coverage.functions_under_contract are not verified.')

# id -> (technique, level text, design ref, note)
CLAIMS = {}


def claim(pid, technique, text, ref, note=TRUST):
    CLAIMS[pid] = (technique, text, ref, note)


NOT_APPLICABLE = {}


def na(pid, reason):
    NOT_APPLICABLE[pid] = reason


exec(open(os.path.join(VERIF, 'claims.py')).read())


def main():
    checks = []
    for pid in sorted(CLAIMS):
        tech, text, ref, note = CLAIMS[pid]
        checks.append(dict(
            property_id=pid,
            quick_cmd='./check %s --tier quick' % pid,
            thorough_cmd='./check %s --tier thorough' % pid,
            evidence_file='/verif/evidence/%s.json' % pid,
            replay_cmd_template='cat {path}',
            engine='contracts',
            level_claimed=dict(category='proof', text=text, design_ref=ref),
            level_note=note,
            technique=tech,
        ))
    m = dict(
        version=1,
        setup_cmd='python3 tools/setup.py',
        hooks=dict(guard='basic_verif', enable='no hooks are compiled into /repo: both verifiers consume text regenerated from the working tree on every run',
                   baseline_off_cmd='cd /repo && cargo test --workspace --no-fail-fast --offline',
                   source_commits=[], add_only=True),
        engines=[dict(name='contracts', path='/verif/check', serves_properties=sorted(CLAIMS),
                      kind_free_text='contract-based deductive verification: Verus on functions extracted verbatim from /repo '
                                     '(tools/extract.py) + Kani function contracts spliced into a scratch copy of the real sources')],
        checks=checks,
        notes='See DESIGN.md. exit 0 = all obligations of the property discharged; exit 1 = VIOLATION; exit 2 = UNDECIDED (never an alarm).',
        not_applicable=[dict(property_id=p, reason=r) for p, r in sorted(NOT_APPLICABLE.items())],
    )
    json.dump(m, open(os.path.join(VERIF, 'MANIFEST.json'), 'w'), indent=1)
    print('MANIFEST.json: %d checks, %d not applicable' % (len(checks), len(NOT_APPLICABLE)))


if __name__ == '__main__':
    main()
