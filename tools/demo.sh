#!/bin/sh
# usage: tools/demo.sh <demo.rs> [repo]   -- runs a demonstration (an integration test using
# tests/common) against the real crate; the file is copied in and removed again.
set -e
REPO=${2:-/repo}
cp "$1" "$REPO/tests/zz_demo.rs"
(cd "$REPO" && cargo test --offline --test zz_demo 2>&1 | grep -E "^test |test result|panicked|assert|left|right" ) || true
rm -f "$REPO/tests/zz_demo.rs"
