#!/usr/bin/env python3
"""Offline setup: checks the tool chain and warms the Kani scratch crate
(regenerated from /repo's working tree; `check` regenerates it again on every run)."""
import os
import shutil
import subprocess
import sys

HERE = os.path.dirname(os.path.abspath(__file__))
sys.path.insert(0, HERE)
import kani_unit  # noqa: E402

for tool in ('verus', 'cargo', 'z3'):
    if not shutil.which(tool):
        print('missing tool: %s' % tool)
        sys.exit(1)
os.makedirs(os.path.join(os.path.dirname(HERE), 'build', 'verus'), exist_ok=True)
os.makedirs(os.path.join(os.path.dirname(HERE), 'evidence'), exist_ok=True)
try:
    meta = kani_unit.build_crate(os.environ.get('VERIF_REPO', '/repo'), kani_unit.contract_files())
    print('kani scratch crate: %d harnesses' % len(meta['harnesses']))
    p = subprocess.run(['cargo', 'kani'] + kani_unit.KANI_FLAGS + ['--only-codegen'], cwd=kani_unit.CRATE,
                       env=kani_unit._env(), stdout=subprocess.PIPE, stderr=subprocess.STDOUT, text=True, timeout=1800)
    print(p.stdout[-600:])
except Exception as e:  # setup is a warm-up only; checks rebuild what they need
    print('warm-up skipped: %s' % e)
print('setup ok')
