"""Verus unit generator.

Reads a unit template (units/<unit>.vrs), copies the named real items from
/repo byte for byte and splices the contract text of the template into them.
Only the rewrites R1..R5 documented in DESIGN.md are applied to copied text;
every application is logged.  Raises Lost(...) when an anchor cannot be found
(the caller reports UNDECIDED, never a violation).
"""
import json
import hashlib
import os
import re
import sys

sys.path.insert(0, os.path.dirname(os.path.abspath(__file__)))
from rsscan import Source, ScanError  # noqa: E402


def _strip_comments(t):
    """drop // and /* */ comments (outside string / char literals) so that the digest of an outlined expression
    does not depend on comments"""
    out = []
    i, n = 0, len(t)
    while i < n:
        c = t[i]
        if c == '"':
            j = i + 1
            while j < n and t[j] != '"':
                j += 2 if t[j] == '\\' else 1
            out.append(t[i:j + 1]); i = j + 1
        elif c == "'" and i + 2 < n and (t[i + 2] == "'" or (t[i + 1] == '\\' and i + 3 < n and t[i + 3] == "'")):
            k = i + 3 if t[i + 2] == "'" else i + 4
            out.append(t[i:k]); i = k
        elif t.startswith('//', i):
            j = t.find('\n', i)
            i = n if j < 0 else j
        elif t.startswith('/*', i):
            j = t.find('*/', i + 2)
            i = n if j < 0 else j + 2
        else:
            out.append(c); i += 1
    return ''.join(out)


class Lost(Exception):
    """An anchor (file, item, function, loop ordinal, text) was not found."""


def _parse_kv(words):
    kv = {}
    for w in words:
        if '=' in w:
            k, v = w.split('=', 1)
            kv[k] = v
        else:
            kv[w] = True
    return kv


class Unit:
    def __init__(self, name, template_path, repo, canary=False):
        self.canary = canary
        self.name = name
        self.template_path = template_path
        self.repo = repo
        self.sources = {}
        self.out = []          # list of (text, origin)
        self.line = 1
        self.functions = []    # dict(name, file, props, safety, mode, out_start, out_end, clauses)
        self.rewrites = []
        self.items = []
        self.outlined = {}     # R12: name -> text of the outlined (assumed) helper, emitted at `//@outlined name`

    def src(self, rel):
        if rel not in self.sources:
            p = os.path.join(self.repo, rel)
            if not os.path.exists(p):
                raise Lost('file %s' % rel)
            self.sources[rel] = Source(p)
        return self.sources[rel]

    def emit(self, text):
        if not text.endswith('\n'):
            text += '\n'
        self.out.append(text)
        self.line += text.count('\n')

    def _load(self, path):
        out = []
        for ln in open(path, encoding='utf-8').read().split('\n'):
            if ln.strip().startswith('//@include '):
                words = ln.strip()[len('//@include '):].split()
                p = os.path.join(os.path.dirname(path), words[0])
                force = [w for w in words[1:] if w.startswith('mode=')]
                out.append('// ---- include %s %s' % (os.path.basename(p), ' '.join(words[1:])))
                for l2 in self._load(p):
                    # `//@include f mode=external_body`: the same contracts are assumed here
                    # (bodies ignored); they are proved in the unit that includes f plainly.
                    if force and l2.strip().startswith('//@fn ') and 'mode=' not in l2:
                        l2 = l2.rstrip() + ' ' + force[0] + ' assumed_from=' + os.path.basename(p)
                    out.append(l2)
            else:
                out.append(ln)
        return out

    # ------------------------------------------------------------------
    def generate(self):
        lines = self._load(self.template_path)
        i = 0
        n = len(lines)
        while i < n:
            ln = lines[i]
            s = ln.strip()
            if s.startswith('//@item '):
                self.do_item(s[len('//@item '):])
                i += 1
            elif s.startswith('//@outlined '):
                nm = s.split()[1]
                if nm not in self.outlined:
                    raise Lost('template: //@outlined %s before (or without) its //@outline' % nm)
                if self.outlined[nm] is not None:       # (None: the outlining function is itself assumed here, R8)
                    self.emit_outlined(nm)
                i += 1
            elif s.startswith('//@fn '):
                j = i + 1
                block = []
                while j < n and lines[j].strip() != '//@endfn':
                    block.append(lines[j])
                    j += 1
                if j >= n:
                    raise Lost('template: //@fn without //@endfn at line %d' % (i + 1))
                self.do_fn(s[len('//@fn '):], block)
                i = j + 1
            else:
                self.emit(ln)
                i += 1
        return ''.join(self.out)

    # ------------------------------------------------------------------
    def do_item(self, spec):
        words = spec.split()
        rel, kind, name = words[0], words[1], words[2]
        kv = _parse_kv(words[3:])
        src = self.src(rel)
        try:
            a, b = src.find_item(kind, name)
        except ScanError as e:
            raise Lost(str(e))
        text = src.text[a:b]
        orig = text
        if kv.get('noderive'):
            # R5
            new = []
            for l in text.split('\n'):
                ls = l.strip()
                if ls.startswith('#[derive(') or ls.startswith('///') or ls.startswith('#[doc') \
                        or ls == '#[default]' or ls.startswith('#[macro_export]'):
                    self.rewrites.append(dict(rule='R5', item='%s %s' % (kind, name), dropped=ls))
                    continue
                new.append(l)
            text = '\n'.join(new)
        if kv.get('static'):
            # R10: `const X: &str` needs an explicit 'static inside verus! (no executable effect)
            text = text.replace(': &str', ": &'static str")
            self.rewrites.append(dict(rule='R10', item='%s %s' % (kind, name), added="'static"))
        if kv.get('pub'):
            # R7: widen visibility of a copied type definition (no executable effect) so that
            # public spec functions may mention it
            m = re.search(r'(?m)^(\s*)(enum|struct)\b', text)
            if m:
                text = text[:m.start(2)] + 'pub ' + text[m.start(2):]
                self.rewrites.append(dict(rule='R7', item='%s %s' % (kind, name), added='pub'))
        if kv.get('derive'):
            text = '#[derive(%s)]\n' % kv['derive'] + text
        if kv.get('attr'):
            text = '#[%s]\n' % kv['attr'].replace('~', ' ') + text
        self.items.append(dict(kind=kind, name=name, file=rel, line=src.line_of(a),
                               bytes=len(orig)))
        self.emit('// ---- %s %s copied from %s:%d' % (kind, name, rel, src.line_of(a)))
        self.emit(text)

    # ------------------------------------------------------------------
    def do_fn(self, spec, block):
        parts = [p.strip() for p in spec.split('|')]
        if len(parts) < 3:
            raise Lost('template: bad //@fn line: %s' % spec)
        rel, impl_hdr = parts[0], parts[1]
        rest = parts[2].split()
        name = rest[0]
        kv = _parse_kv(rest[1:])
        src = self.src(rel)
        try:
            if impl_hdr == '-':
                lo, hi = 0, len(src.text)
            else:
                _, ob, cb = src.find_impl(impl_hdr)
                lo, hi = ob, cb
            if kv.get('inner_of'):
                outer = src.find_fn(kv['inner_of'], lo, hi)
                lo, hi = outer['body_open'], outer['body_close']
            f = src.find_fn(name, lo, hi)
        except ScanError as e:
            raise Lost(str(e))
        # parse sub-directives
        sig_spec = []
        loop_specs = {}
        inserts = []     # (mode, anchor, lines)
        rewrites = []    # (old, new, all)
        desugars = {}    # loop ordinal -> iterator name (R11)
        preloops = {}    # loop ordinal -> ghost lines placed between `mut it =>` and `loop` of a desugared loop (R3')
        endloops = {}    # loop ordinal -> ghost lines placed at the end of the loop body (R3)
        innerspecs = {}  # nested fn name -> contract lines
        innerassumes = set()  # nested fns whose contract is assumed (external_body)
        atend = []       # ghost lines placed at the end of the function body (R3)
        outlines = []    # (name, sig, call, first, last, contract lines) (R12)
        cur = None
        for l in block:
            s = l.strip()
            if s.startswith('//@spec'):
                cur = sig_spec
            elif s.startswith('//@loop '):
                k = int(s.split()[1])
                cur = loop_specs.setdefault(k, [])
            elif s.startswith('//@after ') or s.startswith('//@before '):
                mode, anchor = s[3:].split(' ', 1)
                cur = []
                inserts.append((mode, anchor.strip(), cur))
            elif s.startswith('//@atend'):
                cur = atend
            elif s.startswith('//@innerassume '):
                # a function nested in this function's body is left unverified: `external_body` + the contract that follows (R8)
                innerassumes.add(s.split()[1])
                cur = innerspecs.setdefault(s.split()[1], [])
            elif s.startswith('//@innerspec '):
                # contract of a function nested in this function's body (spliced into the nested signature, R1)
                cur = innerspecs.setdefault(s.split()[1], [])
            elif s.startswith('//@endloop '):
                k = int(s.split()[1])
                cur = endloops.setdefault(k, [])
            elif s.startswith('//@preloop '):
                # ghost lines between the creation of a desugared loop's iterator and the loop itself (R3')
                k = int(s.split()[1])
                cur = preloops.setdefault(k, [])
            elif s.startswith('//@desugar '):
                w = s.split()
                desugars[int(w[1])] = w[2] if len(w) > 2 else 'it__%s' % w[1]
                cur = None
            elif s.startswith('//@outline '):
                # R12: //@outline NAME | <signature of the helper> | <call text> | <first text> ~~> <last text> | sha=<digest>
                op_ = [x.strip() for x in s[len('//@outline '):].split(' | ')]
                if len(op_) != 5 or ' ~~> ' not in op_[3] or not op_[4].startswith('sha='):
                    raise Lost('template: bad //@outline line: %s' % s)
                cur = []
                outlines.append((op_[0], op_[1], op_[2], op_[3].split(' ~~> ')[0].strip(), op_[3].split(' ~~> ')[1].strip(), cur, op_[4][4:]))
            elif s.startswith('//@rewrite'):
                all_ = s.startswith('//@rewriteall')
                body = s.split(' ', 1)[1]
                old, new = body.split(' ==> ')
                rewrites.append((old.strip(), new.strip(), all_))
                cur = None
            elif s.startswith('//@'):
                raise Lost('template: unknown directive %s' % s)
            else:
                if cur is None:
                    if s:
                        raise Lost('template: stray text in //@fn %s: %s' % (name, s))
                else:
                    cur.append(l)

        text = src.text
        fstart, sig_start, bopen, bclose = f['start'], f['sig_start'], f['body_open'], f['body_close']
        # insertion points as (offset, text) in source coordinates
        ins = []
        # R1: name the result
        ret = kv.get('ret', 'r')
        sig = text[sig_start:bopen]
        m = self._find_arrow(src, sig_start, bopen)
        named = None
        if m is not None:
            a, b = m          # type text is text[a:b]
            named = (a, b, ret)
        sig_text = '\n'.join(sig_spec)
        if self.canary and kv.get('mode', 'verify') == 'verify':
            # vacuity canary: every contract additionally promises an uninterpreted, function-specific
            # fact; a function that still verifies has an unsatisfiable precondition (or cannot return)
            self.canary_n = getattr(self, 'canary_n', 0) + 1
            clause = 'vcanary(%dint)' % self.canary_n
            if re.search(r'\bensures\b', sig_text):
                sig_text = re.sub(r'\bensures\b', 'ensures %s,' % clause, sig_text, count=1)
            else:
                sig_text = sig_text + '\n        ensures %s,' % clause
        mode = kv.get('mode', 'verify')
        pre_attr = ''
        if mode == 'external_body':
            pre_attr = '#[verifier::external_body]\n'
        if kv.get('attr'):
            for a_ in kv['attr'].split(';'):
                pre_attr += '#[%s]\n' % a_.replace('~', ' ')
        if mode == 'external_body':
            for o_ in outlines:
                self.outlined[o_[0]] = None
            loop_specs, inserts, desugars, endloops, innerspecs, atend, outlines = {}, [], {}, {}, {}, [], []      # body is dropped (R8)
        # loops
        loops = src.loops(bopen, bclose)
        # R11: `for PAT in EXPR { BODY }` is spelled out as the language defines it (Rust reference,
        # "Iterator loops"): match IntoIterator::into_iter(EXPR) { mut it => loop { match it.next() {
        # None => break, Some(PAT) => { BODY } } } } -- so that the loop can be specified through
        # (assumed) contracts of into_iter/next of iterators for which Verus has no `for` support.
        for k, itname in desugars.items():
            if k < 1 or k > len(loops) or loops[k - 1][2] != 'for':
                raise Lost('fn %s: for-loop #%d not found' % (name, k))
            kw, br, _ = loops[k - 1]
            hdr = text[kw:br]
            m_in = None
            depth = 0
            for mm in re.finditer(r'[(\[{]|[)\]}]|\bin\b', hdr):
                t_ = mm.group(0)
                if t_ in '([{':
                    depth += 1
                elif t_ in ')]}':
                    depth -= 1
                elif depth == 0:
                    m_in = mm
                    break
            if m_in is None:
                raise Lost('fn %s: for-loop #%d: no `in`' % (name, k))
            pat = hdr[3:m_in.start()].strip()
            expr = hdr[m_in.end():].strip()
            close = src.match_brace(br)
            pre_ = preloops.get(k)
            if pre_:
                rewrites.append((hdr.rstrip(), 'match IntoIterator::into_iter(%s) { mut %s => {\n%s\n loop' % (expr, itname, '\n'.join(pre_)), False))
            else:
                rewrites.append((hdr.rstrip(), 'match IntoIterator::into_iter(%s) { mut %s => loop' % (expr, itname), False))
            ins.append((br + 1, ' let ghost %s_prev = %s; match %s.next() { None => break, Some(%s) => {' % (itname, itname, itname, pat), 'desugar#%d' % k))
            ins.append((close + 1, ' } } } }' if pre_ else ' } } }', 'desugar_close#%d' % k))
            self.rewrites.append(dict(rule='R11', fn=name, loop=k, pattern=pat, iterator=expr))
        # R12: an expression of the body (given by its first and last source text) is moved VERBATIM into
        # a helper function declared `external_body`, and replaced by a call of that helper.  Evaluation
        # order and the values passed are unchanged (the helper's parameters are the variables the
        # expression mentions); the helper's contract is ASSUMED and reported in the trusted base.
        for oname, osig, ocall, ofirst, olast, olines, osha in outlines:
            # blanks in the two texts stand for any run of white space (the expression may span lines)
            onth = None
            mm_ = re.search(r'\s+##(\d+)$', ofirst)
            if mm_:
                onth = int(mm_.group(1))
                ofirst = ofirst[:mm_.start()]
            rx1 = re.compile(r'\s+'.join(re.escape(w) for w in ofirst.split()))
            rx2 = re.compile(r'\s+'.join(re.escape(w) for w in olast.split()))
            m1 = rx1.search(text, bopen, bclose)
            for _ in range((onth or 1) - 1):
                if m1 is not None:
                    m1 = rx1.search(text, m1.start() + 1, bclose)
            if m1 is None:
                raise Lost('fn %s: outline %s: first text not found: %s' % (name, oname, ofirst))
            if onth is None and rx1.search(text, m1.start() + 1, bclose) is not None:
                # several occurrences are fine when they are the SAME expression text: all of them become the call
                spans = []
                for mx in rx1.finditer(text, bopen, bclose):
                    my = rx2.search(text, mx.start(), bclose)
                    spans.append(text[mx.start():my.end()] if my else None)
                if len(set(spans)) != 1:
                    raise Lost('fn %s: outline %s: first text ambiguous: %s' % (name, oname, ofirst))
            a_ = m1.start()
            m2 = rx2.search(text, a_, bclose)
            if m2 is None:
                raise Lost('fn %s: outline %s: last text not found: %s' % (name, oname, olast))
            b_ = m2.end()
            otext = text[a_:b_]
            # the assumed contract is tied to the exact expression: a changed text (modulo white space) is a lost anchor
            digest = hashlib.sha1(' '.join(_strip_comments(otext).split()).encode('utf-8')).hexdigest()[:12]
            if digest != osha:
                raise Lost('fn %s: outline %s: the outlined expression changed (sha %s, template pins %s); its assumed '
                           'contract no longer applies' % (name, oname, digest, osha))
            rewrites.append((otext, ocall, True))
            self.outlined[oname] = dict(name=oname, sig=osig, spec=olines, text=otext, of=name, file=rel,
                                        line=src.line_of(a_), props=kv.get('props', ''))
            self.rewrites.append(dict(rule='R12', fn=name, helper=oname, outlined=otext, call=ocall))
        for k, spec_lines in loop_specs.items():
            if k < 1 or k > len(loops):
                raise Lost('fn %s: loop #%d not found (%d loops)' % (name, k, len(loops)))
            ins.append((loops[k - 1][1], '\n' + '\n'.join(spec_lines) + '\n', 'loop#%d' % k))
        for iname, lines_ in innerspecs.items():
            try:
                inner = src.find_fn(iname, bopen, bclose)
            except ScanError as e:
                raise Lost('fn %s: nested fn %s not found' % (name, iname))
            im = self._find_arrow(src, inner['sig_start'], inner['body_open'])
            if im is not None:
                ins.append((im[0], '(r: ', 'inner_ret_open'))
                ins.append((im[1], ')', 'inner_ret_close'))
            ins.append((inner['body_open'], '\n' + '\n'.join(lines_) + '\n', 'inner_sig'))
            self.rewrites.append(dict(rule='R1', fn='%s::%s' % (name, iname), result='r'))
            if iname in innerassumes:
                ins.append((inner['start'], '#[verifier::external_body] ', 'inner_assume'))
                self.rewrites.append(dict(rule='R8', fn='%s::%s' % (name, iname), dropped='body not verified (assumed contract of a nested fn)'))
                self.functions.append(dict(name=iname, impl='(nested in %s)' % name, file=rel, line=src.line_of(inner['sig_start']),
                                           props=[], safety=[], mode='external_body', out_start=0, out_end=0, loops=0,
                                           spec_lines=len([l for l in lines_ if l.strip()]), assumed_from=''))
        if atend:
            ins.append((bclose, '\n' + '\n'.join(atend) + '\n', 'atend'))
        for k, lines_ in endloops.items():
            if k < 1 or k > len(loops):
                raise Lost('fn %s: loop #%d not found (%d loops)' % (name, k, len(loops)))
            ins.append((src.match_brace(loops[k - 1][1]), '\n' + '\n'.join(lines_) + '\n', 'endloop#%d' % k))
        for mode_, anchor, lines_ in inserts:
            nth = None
            mm_ = re.search(r'\s+##(\d+)$', anchor)
            if mm_:
                nth = int(mm_.group(1))
                anchor = anchor[:mm_.start()]
            pos = text.find(anchor, bopen, bclose)
            for _ in range((nth or 1) - 1):
                if pos >= 0:
                    pos = text.find(anchor, pos + 1, bclose)
            if pos < 0:
                raise Lost('fn %s: anchor text not found: %s' % (name, anchor))
            if nth is None and text.find(anchor, pos + 1, bclose) >= 0 and not anchor.endswith('#first'):
                raise Lost('fn %s: anchor text ambiguous: %s' % (name, anchor))
            if mode_ == 'after':
                e = text.find('\n', pos)
                ins.append((e + 1, '\n'.join(lines_) + '\n', 'after'))
            else:
                b_ = text.rfind('\n', 0, pos) + 1
                ins.append((b_, '\n'.join(lines_) + '\n', 'before'))
        # assemble
        pieces = []
        cursor = fstart
        events = []
        if named:
            a, b, r_ = named
            events.append((a, 'ret_open', '(%s: ' % r_))
            events.append((b, 'ret_close', ')'))
        events.append((bopen, 'sig', ('\n' + sig_text + '\n') if sig_text.strip() else ''))
        for off, t, tag in ins:
            events.append((off, tag, t))
        events.sort(key=lambda e: e[0])
        src_concat = []
        for off, tag, t in events:
            seg = text[cursor:off]
            src_concat.append(seg)
            pieces.append(('src', seg))
            if tag == 'ret_close':
                # strip trailing whitespace of type before ')'
                pass
            pieces.append(('ins', t))
            cursor = off
        seg = text[cursor:bclose + 1]
        src_concat.append(seg)
        if mode == 'external_body':
            # R8: the body of an assumed (external_body) function is not looked at by Verus; it is
            # dropped so that it need not type-check outside its crate.  Signature is the real one.
            pieces.append(('ins', '{ unimplemented!() }'))
            self.rewrites.append(dict(rule='R8', fn=name, dropped='body (assumed contract)'))
        else:
            pieces.append(('src', seg))
        # self-check: source pieces reassemble the original span exactly
        assert ''.join(src_concat) == text[fstart:bclose + 1]
        if named:
            self.rewrites.append(dict(rule='R1', fn=name, result=ret))
        # apply logged textual rewrites to source pieces only
        out_pieces = []
        for kind, seg in pieces:
            out_pieces.append([kind, seg])
        for old, new, all_ in rewrites:
            cnt = sum(seg.count(old) for kind, seg in out_pieces if kind == 'src')
            if cnt == 0 and mode == 'external_body' and old in text[bopen:bclose + 1]:
                continue        # the text to rewrite is in the dropped body (R8)
            if cnt == 0:
                raise Lost('fn %s: rewrite source text not found: %s' % (name, old))
            if cnt > 1 and not all_:
                raise Lost('fn %s: rewrite source text ambiguous (%d): %s' % (name, cnt, old))
            for p in out_pieces:
                if p[0] == 'src':
                    p[1] = p[1].replace(old, new)
            if new.startswith('match IntoIterator::into_iter(') and old.lstrip().startswith('for'):
                continue
            if any(o is not None and o['text'] == old for o in self.outlined.values()):
                continue
            self.rewrites.append(dict(rule='R4' if old.lstrip().startswith('for') else 'RW',
                                      fn=name, old=old, new=new, count=cnt))
        # the ret_close piece: type text may have trailing space before '{'
        body = ''.join(seg for _, seg in out_pieces)
        if named:
            body = re.sub(r'\s+\)(\s*\n)', r')\1', body, count=1) if False else body
        header = '// ---- fn %s copied from %s:%d (%s)' % (name, rel, src.line_of(sig_start), mode)
        self.emit(header)
        out_start = self.line
        self.emit(pre_attr + body)
        out_end = self.line - 1
        self.functions.append(dict(
            name=name, impl=impl_hdr, file=rel, line=src.line_of(sig_start),
            props=[p for p in kv.get('props', '').split(',') if p],
            safety=[p for p in kv.get('safety', '').split(',') if p],
            mode=mode, out_start=out_start, out_end=out_end,
            loops=len(loops), spec_lines=len([l for l in sig_spec if l.strip()]),
            assumed_from=kv.get('assumed_from', ''),
        ))

    def emit_outlined(self, nm):
        o = self.outlined[nm]
        self.emit('// ---- helper %s: expression outlined (R12) from fn %s, %s:%d, text copied verbatim; contract ASSUMED'
                  % (nm, o['of'], o['file'], o['line']))
        out_start = self.line
        # like R8 the helper's body is not looked at by Verus; the outlined text is shown as a comment
        self.emit('#[verifier::external_body]\n' + o['sig'] + '\n' + '\n'.join(o['spec']) + '\n{\n'
                  + ''.join('    // ' + l + '\n' for l in o['text'].split('\n')) + '    unimplemented!()\n}')
        self.functions.append(dict(
            name=nm, impl='(outlined from %s)' % o['of'], outlined_from=o['of'], file=o['file'], line=o['line'], props=[], safety=[],
            mode='external_body', out_start=out_start, out_end=self.line - 1, loops=0,
            spec_lines=len([l for l in o['spec'] if l.strip()]), assumed_from='', outlined=True))

    def _find_arrow(self, src, sig_start, bopen):
        """Return (a,b) offsets of the return type text, or None."""
        text = src.text
        # locate parameter list: first '(' after the fn name outside generics
        m = re.compile(r'fn\s+(?:r#)?[A-Za-z_0-9]+').search(text, sig_start)
        i = m.end()
        # skip generics
        while i < bopen and text[i].isspace():
            i += 1
        if text[i] == '<':
            depth = 0
            while i < bopen:
                if text[i] == '<':
                    depth += 1
                elif text[i] == '>' and text[i - 1] != '-':
                    depth -= 1
                    if depth == 0:
                        i += 1
                        break
                i += 1
        while i < bopen and text[i] != '(':
            i += 1
        close = src.match_brace(i)
        j = close + 1
        rest = text[j:bopen]
        am = re.match(r'\s*->\s*', rest)
        if not am:
            return None
        a = j + am.end()
        # type ends at 'where' at depth 0 or at bopen
        wm = re.search(r'\bwhere\b', text[a:bopen])
        b = a + wm.start() if wm else bopen
        # trim trailing whitespace
        while b > a and text[b - 1].isspace():
            b -= 1
        return a, b

    def meta(self):
        return dict(unit=self.name, functions=self.functions, rewrites=self.rewrites,
                    items=self.items)


def generate(unit, template_path, repo, out_rs, out_meta, canary=False):
    u = Unit(unit, template_path, repo, canary=canary)
    text = u.generate()
    os.makedirs(os.path.dirname(out_rs), exist_ok=True)
    open(out_rs, 'w', encoding='utf-8').write(text)
    meta = u.meta()
    json.dump(meta, open(out_meta, 'w'), indent=1)
    return meta


if __name__ == '__main__':
    unit, tpl, repo, out = sys.argv[1:5]
    try:
        m = generate(unit, tpl, repo, out, out + '.meta.json')
        print('generated %s: %d functions, %d items, %d rewrites' % (
            out, len(m['functions']), len(m['items']), len(m['rewrites'])))
    except Lost as e:
        print('LOST %s' % e)
        sys.exit(2)
