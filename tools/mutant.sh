#!/bin/sh
# usage: tools/mutant.sh <patch.diff> <property>...   (self-test: apply a patch to a scratch
# worktree of /repo outside /repo and /verif, run the checks against it, remove it again)
set -e
P=$(readlink -f "$1"); shift
WT=$(mktemp -d /tmp/verif_wt.XXXXXX)
git -C /repo worktree add -q --detach "$WT" HEAD
( cd "$WT" && git apply "$P" )
for pid in "$@"; do
  VERIF_REPO="$WT" "$(dirname "$(readlink -f "$0")")/../check" "$pid" --tier ${TIER:-quick} 2>&1 | grep -E "VIOLATION|obligation:|UNDECIDED|tier=" || true
done
git -C /repo worktree remove --force "$WT"
