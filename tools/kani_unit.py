"""Kani units: splice contracts into a scratch copy of the real sources and run
harnesses.  The scratch crate (build/kani) is regenerated from /repo's working
tree on every run; only files whose content changed are rewritten so that
cargo's incremental build stays warm.
"""
import glob
import json
import os
import re
import shutil
import subprocess
import sys
import time

HERE = os.path.dirname(os.path.abspath(__file__))
VERIF = os.path.dirname(HERE)
sys.path.insert(0, HERE)
from rsscan import Source, ScanError  # noqa: E402

CRATE = os.path.join(VERIF, 'build', 'kani')

CARGO_TOML = '''[package]
name = "basic-kani"
version = "0.0.0"
edition = "2021"

[lib]
name = "basic"
path = "src/lib.rs"

[[bin]]
name = "replay"
path = "src/bin/replay.rs"

[dependencies]
chrono = "0.4"
rand = "0.8"

[lints.rust]
unexpected_cfgs = { level = "allow", check-cfg = ['cfg(kani)', 'cfg(verif_assert)'] }

[profile.dev]
debug = false
'''


class Lost(Exception):
    pass


def _write_if_changed(path, text):
    os.makedirs(os.path.dirname(path), exist_ok=True)
    if os.path.exists(path):
        if open(path, encoding='utf-8').read() == text:
            return False
    open(path, 'w', encoding='utf-8').write(text)
    return True


def parse_contract_file(path):
    """Returns dict(unit, maps, files{rel:text}, appends[(rel,text)],
    attrs[(rel, impl, fn, text)], harness[(rel, modname, text)])"""
    out = dict(unit=None, maps=[], files={}, appends=[], attrs=[], harness=[])
    cur = None
    buf = []

    def flush():
        nonlocal cur, buf
        if cur is None:
            return
        text = '\n'.join(buf).strip('\n') + '\n'
        k = cur[0]
        if k == 'file':
            out['files'][cur[1]] = text
        elif k == 'append':
            out['appends'].append((cur[1], text))
        elif k == 'attr':
            out['attrs'].append((cur[1], cur[2], cur[3], text))
        elif k == 'harness':
            out['harness'].append((cur[1], cur[2], text))
        cur, buf = None, []

    for ln in open(path, encoding='utf-8').read().split('\n'):
        if ln.startswith('//@@ '):
            flush()
            d = ln[5:].strip()
            w = d.split()
            if w[0] == 'unit':
                out['unit'] = w[1]
            elif w[0] == 'map':
                kv = dict(x.split('=', 1) for x in w[2:])
                out['maps'].append((re.compile('^' + w[1] + '$'), kv))
            elif w[0] == 'file':
                cur = ('file', w[1])
            elif w[0] == 'append':
                cur = ('append', w[1])
            elif w[0] == 'attr':
                rel, impl, fn = [x.strip() for x in d[len('attr '):].split('|')]
                cur = ('attr', rel, impl, fn)
            elif w[0] == 'harness':
                cur = ('harness', w[1], w[2])
            else:
                raise Lost('contracts: unknown directive %s' % ln)
        else:
            buf.append(ln)
    flush()
    return out


def harness_names(text):
    """names defined by vharness!(NAME, ...) directly or through the local
    generator macros (identifiers starting with k_ )."""
    names = []
    for m in re.finditer(r'\bk_[A-Za-z0-9_]+\b', text):
        # skip macro definitions' metavariables
        names.append(m.group(0))
    seen = []
    for n in names:
        if n not in seen:
            seen.append(n)
    return seen


def build_crate(repo, contract_files):
    """Regenerate build/kani from the working tree.  Returns metadata."""
    srcdir = os.path.join(CRATE, 'src')
    os.makedirs(srcdir, exist_ok=True)
    files = {}
    for sub in ('lang', 'mach'):
        for p in sorted(glob.glob(os.path.join(repo, 'src', sub, '*.rs'))):
            rel = os.path.relpath(p, repo)
            files[rel] = open(p, encoding='utf-8').read()
    if not files:
        raise Lost('no sources under %s/src/{lang,mach}' % repo)
    specs = [parse_contract_file(p) for p in contract_files]
    extra_mods = []
    harness_index = {}   # harness name -> (module path for replay, unit)
    maps = []
    spliced = []
    for spec in specs:
        maps.extend((rx, kv, spec['unit']) for rx, kv in spec['maps'])
        for rel, text in spec['files'].items():
            files[rel] = text
            extra_mods.append(os.path.splitext(os.path.basename(rel))[0])
        # attribute lines in front of real functions (insertion only)
        by_file = {}
        for rel, impl, fn, text in spec['attrs']:
            by_file.setdefault(rel, []).append((impl, fn, text))
        for rel, lst in by_file.items():
            if rel not in files:
                raise Lost('file %s' % rel)
            src = Source(rel, files[rel])
            inserts = []
            for impl, fn, text in lst:
                try:
                    if impl == '-':
                        lo, hi = 0, len(src.text)
                    else:
                        _, ob, cb = src.find_impl(impl)
                        lo, hi = ob, cb
                    f = src.find_fn(fn, lo, hi)
                except ScanError as e:
                    raise Lost(str(e))
                ls = src.text.rfind('\n', 0, f['sig_start']) + 1
                indent = re.match(r'[ \t]*', src.text[ls:]).group(0)
                inserts.append((ls, ''.join(indent + l + '\n' for l in text.strip().split('\n'))))
                spliced.append('%s::%s::%s' % (rel, impl, fn))
            inserts.sort(reverse=True)
            t = src.text
            for off, ins in inserts:
                t = t[:off] + ins + t[off:]
            files[rel] = t
        for rel, text in spec['appends']:
            if rel not in files:
                raise Lost('file %s' % rel)
            files[rel] = files[rel] + '\n// ---- appended by /verif (accessors only)\n' + text
        for rel, modname, text in spec['harness']:
            if rel not in files:
                raise Lost('file %s' % rel)
            files[rel] = files[rel] + (
                '\n// ---- harness module appended by /verif\n'
                '#[allow(unused_imports, dead_code, non_snake_case, unused_macros)]\n'
                'pub mod %s {\n    use super::*;\n%s}\n' % (modname, text))
            parent = os.path.basename(os.path.dirname(rel))          # lang | mach
            child = os.path.splitext(os.path.basename(rel))[0]
            modrs = 'src/%s/mod.rs' % parent
            files[modrs] = files[modrs] + '\npub use %s::%s;\n' % (child, modname)
            for n in harness_names(text):
                harness_index[n] = ('basic::%s::%s' % (parent, modname), spec['unit'])
    support = open(os.path.join(VERIF, 'contracts', 'kani', 'verif_support.rs'), encoding='utf-8').read()
    files['src/verif.rs'] = support
    lib = '#![allow(dead_code, unused_imports, unused_variables, clippy::all)]\n' \
          'pub mod verif;\npub mod lang;\npub mod mach;\n' + \
          ''.join('pub mod %s;\n' % m for m in extra_mods)
    files['src/lib.rs'] = lib
    # replay binary: dispatch table over every harness
    arms = ''.join('        "%s" => %s::%s(&mut src),\n' % (n, mod, n)
                   for n, (mod, _) in sorted(harness_index.items()))
    replay = '''// generated by /verif/tools/kani_unit.py
#[cfg(kani)]
fn main() {}
#[cfg(not(kani))]
fn main() {
    use basic::verif::Src;
    let mut args: Vec<String> = std::env::args().collect();
    if args.len() > 3 && args[1] == "--enum" {
        // counterexample search for a harness whose inputs range over small finite domains
        // (`enum=` in its map line): try every combination natively
        let dims: Vec<usize> = args[2].split(',').map(|d| d.parse().unwrap()).collect();
        let name = args[3].clone();
        let total: usize = dims.iter().product();
        for n in 0..total {
            let mut k = n;
            let mut combo: Vec<String> = vec![];
            for d in dims.iter() {
                combo.push(format!("{}", k %% d));
                k /= d;
            }
            let out = std::process::Command::new(&args[0]).arg(&name).args(&combo).output().unwrap();
            let text = String::from_utf8_lossy(&out.stdout).to_string();
            if text.contains("CONFIRMED") {
                println!("FOUND {}", combo.join(" "));
                print!("{}", text);
                return;
            }
        }
        println!("REPLAY-ENUM-NONE");
        return;
    }
    let name = args[1].clone();
    let vals: Vec<Vec<u8>> = args[2..]
        .iter()
        .map(|a| if a.is_empty() { vec![] } else { a.split(',').map(|b| b.parse::<u8>().unwrap()).collect() })
        .collect();
    let r = std::panic::catch_unwind(move || {
        let mut src = Src::new(vals);
        match name.as_str() {
%s            _ => { println!("REPLAY-UNKNOWN-HARNESS"); std::process::exit(4) }
        }
    });
    if r.is_err() {
        println!("CONFIRMED panic in the real function");
    }
}
''' % arms
    files['src/bin/replay.rs'] = replay
    files['Cargo.toml'] = CARGO_TOML
    files['.cargo/config.toml'] = '[net]\noffline = true\n'
    lock = os.path.join(repo, 'Cargo.lock')
    if os.path.exists(lock) and not os.path.exists(os.path.join(CRATE, 'Cargo.lock')):
        shutil.copy(lock, os.path.join(CRATE, 'Cargo.lock'))
    changed = 0
    for rel, text in files.items():
        if _write_if_changed(os.path.join(CRATE, rel), text):
            changed += 1
    # drop stale source files
    for sub in ('lang', 'mach'):
        for p in glob.glob(os.path.join(CRATE, 'src', sub, '*.rs')):
            rel = os.path.relpath(p, CRATE)
            if rel not in files:
                os.remove(p)
    return dict(harnesses=harness_index, maps=maps, spliced=spliced, changed=changed)


def harness_meta(meta, name):
    for rx, kv, unit in meta['maps']:
        if rx.match(name):
            return dict(kv, unit=unit)
    return None


def _env():
    e = dict(os.environ)
    e['CARGO_NET_OFFLINE'] = 'true'
    return e


MEM_CAP_KB = int(os.environ.get('VERIF_KANI_MEM_KB', str(10 * 1024 * 1024)))   # per cbmc process
HARNESS_TIMEOUT = os.environ.get('VERIF_KANI_HARNESS_TIMEOUT', '600s')
KANI_FLAGS = ['-Z', 'function-contracts', '-Z', 'unstable-options', '--no-overflow-checks',
              '--harness-timeout', HARNESS_TIMEOUT]
# --no-overflow-checks removes only CBMC's own NaN / float-overflow / div-by-zero
# instrumentation.  Rust's integer overflow, division-by-zero, index and unwrap
# panics are MIR assertions and are still checked (measured: negate(-32768)).


def _limit():
    import resource
    resource.setrlimit(resource.RLIMIT_AS, (MEM_CAP_KB * 1024, MEM_CAP_KB * 1024))


def run_harnesses(names, jobs=16, timeout=3600, extra=()):
    """Run the given harnesses in one cargo-kani invocation.
    Returns dict(results{name: 'ok'|'fail'|'undecided'}, log, wall_s, build_error)"""
    if not names:
        return dict(results={}, log='', wall_s=0.0, build_error=None)
    cmd = ['cargo', 'kani'] + KANI_FLAGS + ['--output-format', 'terse', '-j', str(jobs)]
    cmd += list(extra)
    for n in names:
        cmd += ['--harness', n]
    t0 = time.time()
    try:
        p = subprocess.run(cmd, cwd=CRATE, env=_env(), stdout=subprocess.PIPE, stderr=subprocess.STDOUT,
                           text=True, timeout=timeout, preexec_fn=_limit)
        log = p.stdout
    except subprocess.TimeoutExpired as e:
        log = e.stdout or ''
        if isinstance(log, bytes):
            log = log.decode('utf-8', 'replace')
        log += '\nTIMEOUT'
        subprocess.run(['pkill', '-9', '-f', 'cbmc .*%s' % CRATE])
    wall = time.time() - t0
    results = {n: 'undecided' for n in names}
    if re.search(r'(?m)^error(\[E\d+\])?:', log) and 'Complete - ' not in log:
        return dict(results=results, log=log, wall_s=wall, build_error=True)
    m = re.search(r'Complete - (\d+) successfully verified harnesses, (\d+) failures, (\d+) total', log)
    failed = set()
    for fm in re.finditer(r'Verification failed for - (\S+)', log):
        failed.add(fm.group(1).split('::')[-1])
    checked = set()
    for cm in re.finditer(r'Checking harness (\S+?)\.\.\.', log):
        checked.add(cm.group(1).split('::')[-1])
    if m:
        for n in names:
            if n in failed:
                results[n] = 'fail'
            elif n in checked:
                results[n] = 'ok'
    return dict(results=results, log=log, wall_s=wall, build_error=None if m else True)


def _kani_once(cmd, env, timeout, mem_kb=None):
    def lim():
        import resource
        cap = (mem_kb or MEM_CAP_KB) * 1024
        resource.setrlimit(resource.RLIMIT_AS, (cap, cap))
    try:
        p = subprocess.run(cmd, cwd=CRATE, env=env, stdout=subprocess.PIPE, stderr=subprocess.STDOUT,
                           text=True, timeout=timeout, preexec_fn=lim)
        return p.stdout
    except subprocess.TimeoutExpired as e:
        log = e.stdout or ''
        if isinstance(log, bytes):
            log = log.decode('utf-8', 'replace')
        subprocess.run(['pkill', '-9', '-f', 'cbmc .*%s' % CRATE])
        return log + '\nTIMEOUT'


def run_single(name, playback=True, timeout=1800):
    """Re-run one failing harness alone.  Pass 1 (regular output) decides fail / ok / undecided and
    lists the failed checks; pass 2 (only after a failure) re-runs with --cfg verif_assert, which
    also asserts the postcondition in the harness, so that Kani's concrete playback can print a
    counterexample.  Pass 2 is best effort: without it the violation is reported with
    no-failing-input-found."""
    cmd = ['cargo', 'kani'] + KANI_FLAGS + ['--harness', name]
    # terse output: the regular format makes CBMC produce full traces (measured: 800 s instead of 60 s)
    log = _kani_once(cmd + ['--output-format', 'terse'], _env(), timeout)
    failed_checks = re.findall(r'Failed Checks: (.*)', log)
    for m in re.finditer(r'Check \d+: (\S+)\s*\n\s*- Status: FAILURE\s*\n\s*- Description: "([^"]*)"(?:\s*\n\s*- Location: ([^\n]*))?', log):
        failed_checks.append('%s: %s @ %s' % (m.group(1), m.group(2), (m.group(3) or '').strip()))
    status = 'fail' if 'VERIFICATION:- FAILED' in log else ('ok' if 'VERIFICATION:- SUCCESSFUL' in log else 'undecided')
    # a time-out, a solver abort (memory cap) or a missing list of failed checks is not a refutation
    if status == 'fail' and (re.search(r'timed out|CBMC failed|TIMEOUT|out of memory|std::bad_alloc|Status: ERROR', log)
                             or any(re.search(r'nsupported|not currently supported', c) for c in failed_checks)):
        status = 'undecided'
    if status == 'fail' and not failed_checks:
        # Kani's terse output does not itemise a failed `kani::ensures` clause of a function contract
        failed_checks = ['postcondition (kani::ensures) of the function contract under proof']
    vals = None
    if status == 'fail' and playback:
        env = _env()
        env['RUSTFLAGS'] = (env.get('RUSTFLAGS', '') + ' --cfg verif_assert').strip()
        log2 = _kani_once(cmd + ['-Z', 'concrete-playback', '--concrete-playback=print'], env, timeout, mem_kb=3 * MEM_CAP_KB)
        m = re.search(r'let concrete_vals: Vec<Vec<u8>> = vec!\[(.*?)\n\s*\];', log2, re.S)
        if m:
            vals = []
            for vm in re.finditer(r'vec!\[([0-9, ]*)\]', m.group(1)):
                vals.append([int(x) for x in vm.group(1).replace(' ', '').split(',') if x != ''])
    return dict(status=status, failed_checks=failed_checks, concrete_vals=vals, log=log)


def native_replay_enum(name, dims, timeout=900):
    """For a bounded harness over small finite input domains: find the failing combination natively."""
    b = subprocess.run(['cargo', 'build', '--offline', '--bin', 'replay'], cwd=CRATE, env=_env(),
                       stdout=subprocess.PIPE, stderr=subprocess.STDOUT, text=True, timeout=timeout)
    if b.returncode != 0:
        return dict(outcome='REPLAY-BUILD-FAILED', log=b.stdout[-3000:], vals=None)
    r = subprocess.run([os.path.join(CRATE, 'target', 'debug', 'replay'), '--enum', dims, name], cwd=CRATE,
                       stdout=subprocess.PIPE, stderr=subprocess.STDOUT, text=True, timeout=timeout)
    m = re.search(r'FOUND ([0-9 ]+)', r.stdout)
    if m:
        return dict(outcome='CONFIRMED', log=r.stdout[-2000:], vals=[[int(x)] for x in m.group(1).split()])
    return dict(outcome='NOT-REPRODUCED', log=r.stdout[-2000:], vals=None)


def native_replay(name, vals, timeout=900):
    """Build the scratch crate natively (same real sources) and run the harness
    body on the concrete counterexample."""
    b = subprocess.run(['cargo', 'build', '--offline', '--bin', 'replay'], cwd=CRATE, env=_env(),
                       stdout=subprocess.PIPE, stderr=subprocess.STDOUT, text=True, timeout=timeout)
    if b.returncode != 0:
        return dict(outcome='REPLAY-BUILD-FAILED', log=b.stdout[-3000:])
    args = [','.join(str(x) for x in v) for v in vals]
    r = subprocess.run([os.path.join(CRATE, 'target', 'debug', 'replay'), name] + args, cwd=CRATE,
                       stdout=subprocess.PIPE, stderr=subprocess.STDOUT, text=True, timeout=120)
    out = r.stdout
    if 'CONFIRMED' in out:
        oc = 'CONFIRMED'
    elif 'REPLAY-' in out:
        oc = 'NOT-REPRODUCED'
    else:
        oc = 'NOT-REPRODUCED'
    return dict(outcome=oc, log=out[-3000:])


class kani_lock:
    """The scratch crate build/kani is shared: one user at a time."""
    def __enter__(self):
        import fcntl
        os.makedirs(CRATE, exist_ok=True)
        self.f = open(os.path.join(CRATE, '.lock'), 'w')
        fcntl.flock(self.f, fcntl.LOCK_EX)
        return self

    def __exit__(self, *a):
        import fcntl
        fcntl.flock(self.f, fcntl.LOCK_UN)
        self.f.close()


def contract_files():
    cfs = sorted(glob.glob(os.path.join(VERIF, 'contracts', 'kani', '*.rs')))
    return [c for c in cfs if not c.endswith('verif_support.rs')]


def run_for_property(pid, repo, tier, seed, jobs=None):
    global MEM_CAP_KB
    if tier == 'thorough' and 'VERIF_KANI_HARNESS_TIMEOUT' not in os.environ:
        KANI_FLAGS[-1] = '2400s'      # the thorough harnesses enumerate 2^32 operand pairs: minutes each, more under load
    if tier == 'thorough' and 'VERIF_KANI_MEM_KB' not in os.environ:
        MEM_CAP_KB = 28 * 1024 * 1024  # measured: k_divint__int peaks at 10.8 GB resident (the quick cap is 10 GB of address space)
    with kani_lock():
        return _run_for_property(pid, repo, tier, seed, jobs)


def _run_for_property(pid, repo, tier, seed, jobs=None):
    """Run the Kani harnesses tagged with the property.  Returns None when no
    harness is tagged, else dict(harnesses[(name,status,kind,meta)], failures,
    undecided[], functions[], trusted[], cmds[], solver_s{}, samples[])."""
    cfs = contract_files()
    # cheap pre-scan: is the property mentioned in any map line?
    tagged = False
    for c in cfs:
        for ln in open(c, encoding='utf-8'):
            if ln.startswith('//@@ map ') and re.search(r'props=[A-Z0-9,]*\b%s\b' % pid, ln):
                tagged = True
    if not tagged:
        return None
    out = dict(harnesses=[], failures={}, undecided=[], functions=[], trusted=[], cmds=[], solver_s={},
               samples=[])
    try:
        meta = build_crate(repo, cfs)
    except Lost as e:
        out['undecided'].append('kani: lost anchor: %s' % e)
        return out
    sel = []
    for n in sorted(meta['harnesses']):
        hm = harness_meta(meta, n)
        if not hm or pid not in hm.get('props', '').split(','):
            continue
        t = hm.get('tier', 'quick')
        if t == 'thorough' and tier != 'thorough':
            continue
        sel.append((n, hm))
    if not sel:
        return None
    names = [n for n, _ in sel]
    if jobs is None:
        jobs = int(os.environ.get('VERIF_KANI_JOBS', '8'))
    r = run_harnesses(names, jobs=jobs, timeout=int(os.environ.get('VERIF_KANI_TIMEOUT', '7200' if tier == 'thorough' else '2400')))
    out['cmds'].append('(cd build/kani && cargo kani %s -j %d --harness <%d harnesses>)' % (
        ' '.join(KANI_FLAGS), jobs, len(names)))
    out['solver_s']['kani:wall'] = round(r['wall_s'], 1)
    if r['build_error']:
        out['undecided'].append('kani: build or tool error: %s' % r['log'][-1500:])
    for n, hm in sel:
        st = r['results'].get(n, 'undecided')
        kind = hm.get('kind', 'complete')
        if st == 'fail':
            one = run_single(n, playback=not hm.get('enum'), timeout=3000 if tier == 'thorough' else 1800)
            if one['status'] == 'ok':
                # CBMC is deterministic: a failure under `-j N` that does not reproduce alone is a resource
                # artefact of the batch (per-harness timeout or memory cap under load); the run alone decides
                st = 'ok'
                out.setdefault('notes', []).append('kani harness %s: resource failure in the batch, verified alone' % n)
            elif one['status'] != 'fail':
                st = 'undecided'
                out['undecided'].append('kani harness %s: failed in the batch but not alone (%s)' % (n, one['status']))
            else:
                info = dict(text='Failed Checks: ' + ' | '.join(one['failed_checks'])[:3000],
                            concrete_vals=one['concrete_vals'])
                if one['concrete_vals'] is not None:
                    rp = native_replay(n, one['concrete_vals'])
                    info['replay'] = rp['outcome']
                    info['replay_log'] = rp['log']
                elif hm.get('enum'):
                    rp = native_replay_enum(n, hm['enum'])
                    info['replay'] = rp['outcome']
                    info['replay_log'] = rp['log']
                    info['concrete_vals'] = rp['vals']
                out['failures'][n] = info
        elif st == 'undecided' and not r['build_error']:
            out['undecided'].append('kani harness %s: no result (time-out or memory cap %d KB)' % (n, MEM_CAP_KB))
        out['harnesses'].append((n, st, kind, hm))
    fnames = set()
    for n, hm in sel:
        m = re.match(r'k_(.+?)__', n)
        if m:
            fnames.add(m.group(1))
    for sp in meta['spliced']:
        fn = sp.split('::')[-1]
        impl = sp.split('::')[-2]
        cand = fn
        if fn == 'try_from':
            mm = re.search(r'for (\w+)', impl)
            cand = (mm.group(1) if mm else '') + '_try_from'
        if cand in fnames:
            out['functions'].append('%s [kani contract]' % sp)
    out['trusted'].append('Kani models of std / intrinsics (checked_*, floor, trunc, float casts); Kani-nightly std assumed '
                          'behaviourally identical to the std the shipped binary links')
    out['trusted'].append("CBMC NaN / float-overflow instrumentation disabled (--no-overflow-checks): producing NaN or inf is "
                          "not a crash in Rust; Rust's own overflow / div-by-zero / bounds panics remain checked as assertions")
    for n, hm in sel[:4]:
        out['samples'].append(dict(obligation='kani/' + n, kind=hm.get('kind', 'complete'),
                                   domain=hm.get('domain', 'full input domain of the harness (see contracts/kani)')))
    return out


if __name__ == '__main__':
    repo = sys.argv[1]
    cfs = sorted(glob.glob(os.path.join(VERIF, 'contracts', 'kani', '*.rs')))
    cfs = [c for c in cfs if not c.endswith('verif_support.rs')]
    meta = build_crate(repo, cfs)
    print('crate regenerated: %d files changed, %d harnesses, %d functions under contract' % (
        meta['changed'], len(meta['harnesses']), len(meta['spliced'])))
    if len(sys.argv) > 2:
        names = [n for n in meta['harnesses'] if re.match(sys.argv[2], n)]
        r = run_harnesses(names)
        print(r['log'][-4000:])
        print(json.dumps(r['results'], indent=1))
        print('wall', r['wall_s'])
