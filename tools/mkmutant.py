#!/usr/bin/env python3
"""usage: mkmutant.py <name> <file> <old> <new>  -- writes selftest/<name>.diff (a patch against /repo HEAD)"""
import os, subprocess, sys, tempfile
name, rel, old, new = sys.argv[1:5]
wt = tempfile.mkdtemp(prefix='verif_mk.', dir='/tmp')
subprocess.check_call(['git', '-C', '/repo', 'worktree', 'add', '-q', '--detach', wt, 'HEAD'])
try:
    p = os.path.join(wt, rel)
    s = open(p).read()
    assert s.count(old) == 1, 'old text occurs %d times' % s.count(old)
    open(p, 'w').write(s.replace(old, new))
    d = subprocess.check_output(['git', '-C', wt, 'diff']).decode()
    out = os.path.join(os.path.dirname(os.path.dirname(os.path.abspath(__file__))), 'selftest', name + '.diff')
    open(out, 'w').write(d)
    print('wrote', out, len(d.split('\n')), 'lines')
finally:
    subprocess.call(['git', '-C', '/repo', 'worktree', 'remove', '--force', wt])
