#!/usr/bin/env python3
"""prints the table of DESIGN.md section 6 from the generated units (build/verus/*.meta.json)"""
import json, glob, os, collections
HERE = os.path.dirname(os.path.abspath(__file__))
rows = []
tot_v = tot_a = 0
seen_v = set(); seen_a = set()
for f in sorted(glob.glob(os.path.join(HERE, '..', 'build', 'verus', '*.rs.meta.json'))):
    u = os.path.basename(f)[:-len('.rs.meta.json')]
    if u.endswith('__canary') or not os.path.exists(os.path.join(HERE, '..', 'units', u + '.vrs')) or u.startswith(('inc_', 'prelude_')):
        continue
    m = json.load(open(f))
    by = collections.OrderedDict()
    na = 0
    for fn in m['functions']:
        key = (fn['file'], fn['impl'], fn['name'])
        if fn['mode'] == 'external_body':
            na += 1
            seen_a.add(key)
            continue
        seen_v.add(key)
        by.setdefault(fn['impl'].replace('impl ', ''), []).append(fn['name'].replace('r#', ''))
    cells = []
    for impl, names in by.items():
        cells.append('`%s::{%s}`' % (impl, ', '.join(names)) if impl != '-' else '`%s`' % ', '.join(names))
    rows.append('| `%s` | %d | %s | %d |' % (u, sum(len(v) for v in by.values()), '; '.join(cells), na))
print('| unit | proved | real functions under contract (Verus) | declared with an assumed contract |')
print('|------|-------:|------------------------------|---:|')
print('\n'.join(rows))
print()
print('distinct real functions proved in some unit: %d; distinct functions that are assumed in every unit that declares them: %d'
      % (len(seen_v), len(seen_a - seen_v)))
