"""Verus units: generate (tools/extract.py) -> verus -> parse -> per-function result.

A unit is one template units/<unit>.vrs.  The generated file build/verus/<unit>.rs
holds the real functions copied byte for byte from /repo's working tree with the
contract text spliced in.  This module never decides violation/undecided on its
own: it returns structured facts, `check` classifies.
"""
import json
import os
import re
import subprocess
import sys
import time

HERE = os.path.dirname(os.path.abspath(__file__))
VERIF = os.path.dirname(HERE)
sys.path.insert(0, HERE)
import extract  # noqa: E402

BUILD = os.path.join(VERIF, 'build', 'verus')

# Verus diagnostics that are genuine failed verification conditions
VC_KINDS = [
    ('postcondition not satisfied', 'ensures'),
    ('precondition not satisfied', 'requires@callsite'),
    ('precondition not met', 'requires@callsite'),
    ('possible arithmetic underflow/overflow', 'overflow'),
    ('possible division by zero', 'divzero'),
    ('decreases not satisfied', 'decreases'),
    ('could not prove termination', 'decreases'),
    ('invariant not satisfied', 'invariant'),
    ('assertion failed', 'assert'),
    ('possible bit shift underflow/overflow', 'overflow'),
    ('unreachable', 'unreachable'),
    ('possible truncation', 'overflow'),
    ('recommendation not met', None),      # recommends are not obligations
]
SCAN_RX = re.compile(r'\b(assume_specification|external_body|external_type_specification|external_fn_specification|'
                     r'assume\s*\(|admit\s*\(|axiom|external\b)')


def unit_tags(template_path):
    """props/safety tags found in a template and its includes (cheap scan)."""
    tags = set()
    text = open(template_path, encoding='utf-8').read()
    for m in re.finditer(r'//@include (\S+)(.*)', text):
        if 'mode=external_body' in m.group(2):
            continue        # assumed there, not proved: does not make the unit a check of the tag
        tags |= unit_tags(os.path.join(os.path.dirname(template_path), m.group(1)))
    for m in re.finditer(r'//@fn .*', text):
        for k in ('props', 'safety'):
            mm = re.search(r'\b%s=([A-Z0-9,]+)' % k, m.group(0))
            if mm:
                tags.update(x for x in mm.group(1).split(',') if x)
    return tags


def count_clauses(text):
    """number of top-level comma separated clauses in a spec block"""
    depth = 0
    n = 0
    cur = ''
    for ch in text:
        if ch in '([{':
            depth += 1
        elif ch in ')]}':
            depth -= 1
        if ch == ',' and depth == 0:
            if cur.strip():
                n += 1
            cur = ''
        else:
            cur += ch
    if cur.strip():
        n += 1
    return n


def spec_obligations(fn_meta, gen_lines):
    """Obligation names for one function under contract, derived from the
    generated text: one per ensures clause, one per loop-invariant clause, one
    decreases per loop / recursive fn, plus one 'safety' obligation standing for
    the function's built-in conditions (overflow, bounds, callee preconditions,
    unwrap)."""
    lo, hi = fn_meta['out_start'] - 1, fn_meta['out_end']
    text = '\n'.join(gen_lines[lo:hi])
    obs = []
    # strip comments
    t = re.sub(r'//[^\n]*', '', text)
    # signature-level ensures
    head = t.split('{', 1)[0] if '{' in t else t
    # find "ensures" blocks anywhere (fn or loop level)
    for kind in ('ensures', 'invariant', 'invariant_except_break'):
        for m in re.finditer(r'\b%s\b' % kind, t):
            rest = t[m.end():]
            stop = re.search(r'\b(requires|ensures|invariant|invariant_except_break|decreases|returns|no_unwind)\b|\{', rest)
            # a '{' inside a clause (e.g. match / forall bodies) would cut early; use depth aware scan
            depth = 0
            j = 0
            while j < len(rest):
                c = rest[j]
                if c in '([':
                    depth += 1
                elif c in ')]':
                    depth -= 1
                elif c == '{' and depth == 0:
                    break
                elif depth == 0 and re.match(r'\b(requires|ensures|invariant|invariant_except_break|decreases|returns|no_unwind)\b', rest[j:]) \
                        and (j == 0 or not (rest[j - 1].isalnum() or rest[j - 1] == '_')):
                    break
                j += 1
            n = count_clauses(rest[:j])
            k = 'ensures' if kind == 'ensures' else 'invariant'
            base = len([o for o in obs if o.startswith(k)])
            for i in range(n):
                obs.append('%s#%d' % (k, base + i + 1))
    nd = len(re.findall(r'\bdecreases\b', t))
    for i in range(nd):
        obs.append('decreases#%d' % (i + 1))
    obs.append('safety')
    return obs


def parse_errors(stderr, gen_name):
    """Split rustc-style diagnostics into blocks."""
    blocks = []
    cur = None
    for ln in stderr.split('\n'):
        if re.match(r'^(error|warning|note)(\[[A-Z0-9]+\])?:', ln):
            if cur:
                blocks.append(cur)
            cur = dict(head=ln, lines=[ln], locs=[])
        elif cur is not None:
            cur['lines'].append(ln)
            m = re.match(r'\s*-->\s*(\S+?):(\d+):(\d+)', ln)
            if m:
                cur['locs'].append((m.group(1), int(m.group(2))))
            else:
                m = re.match(r'\s*(\d+)\s*\|', ln)
                if m:
                    cur.setdefault('src_lines', []).append(int(m.group(1)))
    if cur:
        blocks.append(cur)
    return blocks


def run_unit(unit, repo, seed=0, rlimit=None, timeout=900, extra_args=(), canary=False):
    """Returns dict:
      status: 'ok' | 'fail' | 'undecided'
      reason: text for undecided
      functions: {name: dict(meta..., status, failures:[dict(kind, line, text)])}
      obligations: [names]   discharged: [names]   failed: [names]
      wall_s, smt_s, cmd, trusted_scan{token:count}, rewrites, items
    """
    tpl = os.path.join(VERIF, 'units', unit + '.vrs')
    out_rs = os.path.join(BUILD, unit + ('__canary' if canary else '') + '.rs')
    res = dict(unit=unit, status='undecided', reason='', functions={}, obligations=[], discharged=[],
               failed=[], wall_s=0.0, smt_s=0.0, cmd='', trusted_scan={}, rewrites=[], items=[],
               stderr='')
    t0 = time.time()
    try:
        meta = extract.generate(unit, tpl, repo, out_rs, out_rs + '.meta.json', canary=canary)
    except extract.Lost as e:
        res['reason'] = 'lost anchor: %s' % e
        res['wall_s'] = time.time() - t0
        return res
    gen_text = open(out_rs, encoding='utf-8').read()
    if rlimit and rlimit >= 100 and 'verifier::rlimit(' in gen_text:
        # a per-function budget in the template overrides the command line: scale it for the big-budget retry
        # (same line count, so diagnostics keep pointing at the right lines)
        gen_text = re.sub(r'verifier::rlimit\((\d+)\)', lambda m: 'verifier::rlimit(%d)' % (int(m.group(1)) * 5), gen_text)
        open(out_rs, 'w', encoding='utf-8').write(gen_text)
    gen_lines = gen_text.split('\n')
    res['rewrites'] = meta['rewrites']
    res['items'] = meta['items']
    scan = {}
    for m in SCAN_RX.finditer(re.sub(r'//[^\n]*', '', gen_text)):
        k = m.group(1).replace('(', '').strip()
        scan[k] = scan.get(k, 0) + 1
    res['trusted_scan'] = scan
    cmd = ['verus', os.path.basename(out_rs), '--output-json', '--time-expanded', '--multiple-errors', '4']
    if seed:
        cmd += ['--smt-option', 'smt.random_seed=%d' % (seed % 100000)]
    if rlimit:
        cmd += ['--rlimit', str(rlimit)]
    cmd += list(extra_args)
    res['cmd'] = ' '.join(cmd)
    try:
        p = subprocess.run(cmd, cwd=BUILD, stdout=subprocess.PIPE, stderr=subprocess.PIPE, text=True,
                           timeout=timeout)
    except subprocess.TimeoutExpired:
        res['reason'] = 'verus timed out after %ds' % timeout
        res['wall_s'] = time.time() - t0
        return res
    res['wall_s'] = time.time() - t0
    res['stderr'] = p.stderr
    try:
        js = json.loads(p.stdout)
    except Exception:
        res['reason'] = 'verus produced no JSON (exit %d): %s' % (p.returncode, p.stderr[-1500:])
        return res
    vr = js.get('verification-results', {})
    smt = js.get('times-ms', {}).get('smt', {})
    res['smt_s'] = smt.get('total', 0) / 1000.0
    breakdown = {}
    for mod in smt.get('smt-run-module-times', []):
        for f in mod.get('function-breakdown', []):
            breakdown[f['function']] = f
    # index functions under contract
    fns = {}
    for f in meta['functions']:
        key = f['name'] + '@' + f['impl']
        d = dict(f)
        d['status'] = 'trusted' if f['mode'] == 'external_body' else 'ok'
        d['failures'] = []
        d['obligations'] = [] if f['mode'] == 'external_body' else spec_obligations(f, gen_lines)
        d['smt_ms'] = None
        fns[key] = d
    # map smt breakdown to functions by trailing name
    for full, f in breakdown.items():
        short = full.split('::')[-1]
        for key, d in fns.items():
            if d['name'].replace('r#', '') == short and d['mode'] != 'external_body':
                d['smt_ms'] = (d['smt_ms'] or 0) + f.get('time', 0)
    blocks = parse_errors(p.stderr, os.path.basename(out_rs))
    hard_errors = []
    for b in blocks:
        if not b['head'].startswith('error'):
            continue
        msg = re.sub(r'^error(\[[A-Z0-9]+\])?:\s*', '', b['head'])
        if msg.startswith('aborting due to'):
            continue
        kind = None
        known = False
        for pat, k in VC_KINDS:
            if pat in msg:
                kind, known = k, True
                break
        if not known:
            if 'Resource limit' in msg or 'rlimit' in msg:
                continue        # classified below
            hard_errors.append(msg + ' @ ' + (', '.join('%s:%d' % l for l in b['locs'][:1])))
            continue
        if kind is None:
            continue
        # locate function: first location inside a function under contract
        lines = [l for (_f, l) in b['locs']] + b.get('src_lines', [])
        owner = None
        for l in lines:
            for key, d in fns.items():
                if d['out_start'] <= l <= d['out_end'] and d['mode'] != 'external_body':
                    owner = key
                    break
            if owner:
                break
        text = '\n'.join(b['lines'][:14])
        if owner is None:
            # failure in template-only code (lemma, spec helper): unit level
            res.setdefault('unit_failures', []).append(dict(kind=kind, text=text, line=lines[0] if lines else 0))
            continue
        d = fns[owner]
        d['status'] = 'fail'
        d['failures'].append(dict(kind=kind, line=lines[0] if lines else 0, text=text,
                                  src=gen_lines[lines[0] - 1].strip() if lines and lines[0] - 1 < len(gen_lines) else ''))
    res['functions'] = fns
    if hard_errors:
        res['status'] = 'undecided'
        res['reason'] = 'verus/rustc rejected the generated text: ' + ' | '.join(hard_errors[:4])
        return res
    if vr.get('encountered-vir-error'):
        res['reason'] = 'VIR error: ' + p.stderr[-1500:]
        return res
    rl = [b for b in blocks if 'Resource limit' in b['head'] or 'rlimit' in b['head']]
    any_vc = any(d['failures'] for d in fns.values())
    if rl and not any_vc:
        # the solver gave up without refuting anything: no answer
        res['reason'] = 'resource limit (rlimit) exceeded: ' + rl[0]['head']
        return res
    # (with --multiple-errors Verus goes on after a failed condition and may then run out of budget looking for
    # further ones: the conditions it did report as failed stand, and are re-tried by the caller under other seeds)
    any_fail = any(d['status'] == 'fail' for d in fns.values()) or bool(res.get('unit_failures'))
    if not any_fail and not vr.get('success'):
        res['reason'] = 'verus reported failure without a classifiable diagnostic: ' + p.stderr[-1500:]
        return res
    for key, d in fns.items():
        failed_kinds = set()
        for fl in d['failures']:
            failed_kinds.add(fl['kind'])
        for ob in d['obligations']:
            name = '%s/%s/%s' % (unit, d['name'], ob)
            res['obligations'].append(name)
            okind = ob.split('#')[0]
            bad = False
            if d['status'] == 'fail':
                if okind == 'ensures' and 'ensures' in failed_kinds:
                    bad = True
                elif okind == 'invariant' and 'invariant' in failed_kinds:
                    bad = True
                elif okind == 'decreases' and 'decreases' in failed_kinds:
                    bad = True
                elif okind == 'safety' and failed_kinds & {'overflow', 'requires@callsite', 'divzero', 'assert', 'unreachable'}:
                    bad = True
            (res['failed'] if bad else res['discharged']).append(name)
    res['verus_verified'] = vr.get('verified', 0)
    res['verus_errors'] = vr.get('errors', 0)
    res['status'] = 'fail' if any_fail else 'ok'
    if res['status'] == 'ok' and res['verus_verified'] == 0:
        res['status'] = 'undecided'
        res['reason'] = 'verus verified zero functions (vacuous run)'
    return res


if __name__ == '__main__':
    r = run_unit(sys.argv[1], sys.argv[2] if len(sys.argv) > 2 else '/repo')
    fl = {k: [(f['kind'], f['line'], f['src']) for f in d['failures']] for k, d in r['functions'].items() if d['failures']}
    print(json.dumps(dict(status=r['status'], reason=r['reason'], n_ob=len(r['obligations']),
                          n_dis=len(r['discharged']), failed=r['failed'], failures=fl,
                          unit_failures=r.get('unit_failures'), wall=r['wall_s'], smt=r['smt_s'],
                          verified=r.get('verus_verified'), scan=r['trusted_scan']), indent=1))
    if r['status'] != 'ok':
        print(r['stderr'][-6000:])
