# Claim table (executed by tools/mk_manifest.py).  Only properties whose checks exist and pass on
# the unchanged tree are claimed; everything else is listed under not_applicable with the reason.
claim('C18', 'Verus contracts on Stack<T> and the VM frame handlers (exact length effects, 65535 limit => OUT OF MEMORY)',
      'Unbounded deductive proof (Verus/z3) of the contracts of the real Stack methods and RETURN handler extracted verbatim from /repo: every op has its exact effect on the abstract sequence and the size limit turns into OUT OF MEMORY. Partial: statements whose code generation is not under contract are not decided.',
      'DESIGN.md §7 C18')
na('C05', 'Relates lex, Display for Token/Line and lex again; Display output reached through to_string() is an uninterpreted string in Verus and Kani does not finish on 2-character strings (measured): no contract within reach can state it over the real code. See DESIGN.md §7 C05.')
