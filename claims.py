# Claim table (executed by tools/mk_manifest.py).  Only properties whose checks exist and pass on
# the unchanged tree are claimed; everything else is listed under not_applicable with the reason.
V = 'Verus (z3) unbounded deductive proof of contracts spliced into the real functions extracted verbatim from /repo on every run'
claim('C01', 'Verus contracts on the VM control-flow handlers (RETURN, ON, END, STOP/CONT state)',
      V + ': RETURN unwinds to the topmost pending return address keeping one function value, ON selects the k-th table entry or falls through leaving nothing on the stack, END/CONT save and restore the continuation. Partial: per-function mechanisms only, compiler correctness end to end is not decided (see coverage.not_decided).',
      'DESIGN.md §7 C01')
claim('C04', 'Verus representation invariant "dirty flag clear => compiled program == listing" over every listing mutator',
      V + ': every path that edits the listing (numbered line, bare number, DELETE, RENUM, NEW) re-establishes the invariant and cancels CONT point, pending frames and user functions; a direct line recompiles exactly the listing. Assumes the stated contract of Program::codegen.',
      'DESIGN.md §7 C04')
claim('C06', 'Verus contracts on Var (typed store / zero default / slot freeing / no aliasing) and the SWAP handler',
      V + ': store never keeps a value of another type, converts as assignment, frees default values, touches no other variable; fetch of an unassigned name reads the zero of its type; SWAP rejects mixed types without assigning. Arrays (build_array_key) are not decided.',
      'DESIGN.md §7 C06')
claim('C09', 'Verus contracts on READ / RESTORE / CLEAR handlers against the data pointer',
      V + ': READ delivers data[data_pos] and advances, past the end OUT OF DATA with nothing changed, RESTORE and CLEAR reposition. The data segment layout produced by the linker is assumed in this unit.',
      'DESIGN.md §7 C09')
claim('C10', 'Verus contracts on DEF (binding, ILLEGAL DIRECT) and RETURN (one value survives)',
      V + ': DEF binds (arity, body address) only inside a program; RETURN keeps exactly the function value above the return address. Call-site argument order (Drain iterator) is not decided.',
      'DESIGN.md §7 C10')
claim('C12', 'Verus contracts on CLEAR / NEW / Var::clear: every run-relevant field back to start-up value',
      V + ': stack, variables, arrays, user functions, CONT point and DATA position are reset, the stored program and its compilation are framed out; NEW additionally empties the listing. DEFtype table reset and RNG reseed are not decided.',
      'DESIGN.md §7 C12')
claim('C13', 'Verus contracts on interrupt / END / CONT / direct-line entry (save-restore of the continuation)',
      V + ': interrupt saves (state, pc) and keeps the stack inside a program; CONT restores exactly that; a direct line leaves stack, variables, functions and continuation untouched. Step-quantum independence is not decided.',
      'DESIGN.md §7 C13')
claim('C15', 'Verus contracts on line entry / DELETE / LIST handlers and line-number operand conversion (0..65529)',
      V + ': a numbered line inserts or replaces, a bare number deletes, nothing else changes; bare DELETE is rejected; numbers above 65529 are UNDEFINED LINE. The BTreeMap range iteration of LIST is assumed in this unit.',
      'DESIGN.md §7 C15')
claim('C17', 'Verus contract on the INPUT prompt handler (prompt + "? ", caps flag, stack restored)',
      V + ': the prompt event is the staged prompt followed by "? ", capitalisation is off exactly for the staged 0, and the staging layout is left intact. Reply splitting (CharIndices loop) and numeric text conversion are not decided.',
      'DESIGN.md §7 C17')
claim('C18', 'Verus contracts on Stack<T> (exact length effects, 65535 limit => OUT OF MEMORY), Var pool limit, handler stack deltas',
      V + ': every Stack op has its exact effect on the abstract sequence, the size limit turns into OUT OF MEMORY, the variable pool is limited and frees defaults, ON...GOSUB without a branch leaves nothing. Statements whose code generation is not under contract are not decided.',
      'DESIGN.md §7 C18')
na('C05', 'Relates lex, Display for Token/Line and lex again; Display output reached through to_string() is an uninterpreted string in Verus and Kani does not finish on 2-character strings (measured): no contract within reach can state it over the real code. See DESIGN.md §7 C05.')
for _p, _r in [
    ('C02', 'checks under construction (Kani integer contracts + Verus operator wrappers); not yet registered'),
    ('C03', 'checks under construction (termination / panic-freedom of the functions under contract); not yet registered'),
    ('C07', 'string function unit not built yet'),
    ('C08', 'Kani integer contracts not yet registered'),
    ('C11', 'PRINT layout unit not built yet'),
    ('C14', 'RENUM unit not built yet'),
    ('C16', 'lexer unit not built yet'),
    ('C19', 'linker diagnostics unit not built yet'),
    ('C20', 'linker layout unit not built yet'),
]:
    na(_p, _r)
