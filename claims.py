# Claim table (executed by tools/mk_manifest.py).  Only properties whose checks exist and pass on
# the unchanged tree are claimed; everything else is listed under not_applicable with the reason.
V = 'Verus (z3) unbounded deductive proof of contracts spliced into the real functions extracted verbatim from /repo on every run'
claim('C01', 'Verus contracts on the VM control-flow handlers (RETURN, ON, END, STOP/CONT state)',
      V + ': RETURN unwinds to the topmost pending return address keeping one function value, ON selects the k-th table entry or falls through leaving nothing on the stack, END/CONT save and restore the continuation. Partial: per-function mechanisms only, compiler correctness end to end is not decided (see coverage.not_decided).',
      'DESIGN.md §7 C01')
claim('C04', 'Verus representation invariant "dirty flag clear => compiled program == listing" over every listing mutator',
      V + ': every path that edits the listing (numbered line, bare number, DELETE, RENUM, NEW) re-establishes the invariant and cancels CONT point, pending frames and user functions; a direct line recompiles exactly the listing. Assumes the stated contract of Program::codegen.',
      'DESIGN.md §7 C04')
claim('C06', 'Verus contracts on Var (typed store / zero default / slot freeing / no aliasing) and the SWAP handler',
      V + ': store never keeps a value of another type, converts as assignment, frees default values, touches no other variable; fetch of an unassigned name reads the zero of its type; SWAP rejects mixed types without assigning. Arrays (build_array_key) are not decided.',
      'DESIGN.md §7 C06')
claim('C09', 'Verus contracts on READ / RESTORE / CLEAR handlers against the data pointer',
      V + ': READ delivers data[data_pos] and advances, past the end OUT OF DATA with nothing changed, RESTORE and CLEAR reposition. The data segment layout is decided where the linker builds it: DATA constants (literal or negated literal) go to the end of the data segment in order (transform_to_data), line symbols record the data address, append re-bases data addresses by the data length, link resolves RESTORE n to the data address of line symbol n.',
      'DESIGN.md §7 C09')
claim('C10', 'Verus contracts on DEF (binding, ILLEGAL DIRECT) and RETURN (one value survives)',
      V + ': DEF binds (arity, body address) only inside a program; RETURN keeps exactly the function value above the return address. The code shape of a definition (count, Def, jump over the body, one Pop per parameter in order, body, Return, skip label) is proved for push_def_fn. Call-site argument order (Drain + Rev iterator) is not decided.',
      'DESIGN.md §7 C10')
claim('C12', 'Verus contracts on CLEAR / NEW / Var::clear: every run-relevant field back to start-up value',
      V + ': stack, variables, arrays, user functions, CONT point and DATA position are reset, the stored program and its compilation are framed out; NEW additionally empties the listing. DEFtype table reset and RNG reseed are not decided.',
      'DESIGN.md §7 C12')
claim('C13', 'Verus contracts on interrupt / END / CONT / direct-line entry (save-restore of the continuation)',
      V + ': interrupt saves (state, pc) and keeps the stack inside a program; CONT restores exactly that; a direct line leaves stack, variables, functions and continuation untouched. Step-quantum independence is not decided.',
      'DESIGN.md §7 C13')
claim('C15', 'Verus contracts on line entry / DELETE / LIST handlers and line-number operand conversion (0..65529)',
      V + ': a numbered line inserts or replaces, a bare number deletes, nothing else changes; bare DELETE is rejected; numbers above 65529 are UNDEFINED LINE. The BTreeMap range iteration of LIST is assumed in this unit.',
      'DESIGN.md §7 C15')
claim('C17', 'Verus contract on the INPUT prompt handler (prompt + "? ", caps flag, stack restored)',
      V + ': the prompt event is the staged prompt followed by "? ", capitalisation is off exactly for the staged 0, and the staging layout is left intact. Reply splitting (CharIndices loop) and numeric text conversion are not decided.',
      'DESIGN.md §7 C17')
claim('C18', 'Verus contracts on Stack<T> (exact length effects, 65535 limit => OUT OF MEMORY), Var pool limit, handler stack deltas',
      V + ': every Stack op has its exact effect on the abstract sequence, the size limit turns into OUT OF MEMORY, the variable pool is limited and frees defaults, ON...GOSUB without a branch leaves nothing. Statements whose code generation is not under contract are not decided.',
      'DESIGN.md §7 C18')
claim('C02', 'Kani function contracts over all 2^32 Integer operand pairs / all float bit patterns + Verus contracts on operator wrappers, precedence tables and typed store',
      'Kani (CBMC) proofs of kani::ensures contracts spliced onto the real Operation / Function / TryFrom functions: every Integer x Integer arm exact or OVERFLOW, relationals exactly 0 / -1, bitwise tables, float-to-integer conversions (floor, range) for every bit pattern, INT / FIX / SGN / CSNG / CDBL / ABS / unary minus for all three numeric types. ' + V + ': logical operators, \\ and MOD for every operand type through the conversion contract, relational wrappers, the 13-level precedence tables against the manual, operator-to-AST mapping, assignment conversion (Var::store). Not decided: float + - * / values, String x String arms. The recursive precedence-climbing parser (descend) is proved to build exactly the tree of the grammar spec `climb`, and lemmas over `climb` show: any two binary operators group by the 13-level table with equal levels to the left, unary minus at level 12, NOT at level 6.',
      'DESIGN.md §7 C02')
claim('C03', 'Verus built-in obligations (overflow, bounds, unwrap, callee preconditions, termination measures) of every function under contract',
      V + ': every lexer scanner loop terminates and consumes at least one character (the 1EE hang fails exactly this obligation), Stack / Var / Link / Listing / VM handlers under contract cannot panic, listing edits survive live snapshots (Arc::make_mut), interrupt always reaches the Interrupt state. Only for the functions listed in evidence.coverage.functions_under_contract.',
      'DESIGN.md §7 C03')
claim('C08', 'Kani function contracts, all 2^32 Integer operand pairs symbolically, loop-free or fully unwound (complete, not bounded)',
      'Kani (CBMC) proofs of kani::ensures contracts on the real functions: + - * ^ on Integers, unary minus, ABS, and Single/Double to Integer conversion return the exact result in range or OVERFLOW for every input; Verus proves the DIVISION BY ZERO / OVERFLOW / MOD -1 case split of \\ and MOD for every operand type. The exact quotient and remainder for all pairs (CBMC needs minutes) are in the thorough tier.',
      'DESIGN.md §7 C08',
      'Trusted: Kani/CBMC tool chain, Kani models of std (checked_*, floor, casts) on its own nightly std; CBMC NaN instrumentation disabled.')
claim('C11', 'Verus contracts on TAB / SPC / POS (14-column zone arithmetic) and the prompt column reset',
      V + ': TAB(t) pads to column t or not at all, the comma form (negative t) advances to the next multiple of |t| by 1..|t| spaces, SPC(n) is n spaces, POS is the cursor column, |t|, n > 255 is OVERFLOW. Not decided: number formatting, print-list desugaring, the column bookkeeping loop of PRINT.',
      'DESIGN.md §7 C11')
claim('C20', 'Verus contracts on symbol allocation, symbolic branch emission, fragment appending (re-basing) and symbol resolution in the linker, and on direct-line entry',
      V + ': every branch is emitted against a symbol (the line number itself for GOTO / GOSUB / RESTORE / RUN, a fresh negative symbol for local labels), symbols record (code, data) positions, local symbols are fresh, a direct line is compiled after the program without touching it. Link::append re-bases every code / data address by the segment lengths and every local symbol by the allocation mark (symbol table, pending operands, WHILE / WEND records: all entries, nothing else), WHILE / WEND records are paired like brackets, and Link::link replaces every symbolic operand by the address its symbol stands for, leaves every other instruction alone and drops the local symbols. The for-loops over by-value map iterators and Drain are verified in their language-defined desugaring against assumed specifications of the std iterators (listed in the evidence).',
      'DESIGN.md §7 C20')
claim('C07', 'Verus contracts on LEN / SPC / the 255-character store limit + bounded Kani harnesses for LEFT$ / RIGHT$ / MID$',
      V + ': LEN counts characters, SPC(n) is n spaces or OVERFLOW, a stored string has at most 255 characters (STRING TOO LONG otherwise, also for DEFSTR-typed names). BOUNDED stand-in (Kani, labelled bounded in the evidence, never counted as proved): LEFT$, RIGHT$ and two-argument MID$ on the fixed strings "", "a", "ab", "e-acute", "a e-acute" for every length / position in {-1..5, 254, 255, 256, 32766, 32767} return exactly the documented characters. Not decided: INSTR, three-argument MID$, MID$ assignment, STR$/VAL/HEX$/OCT$, comparison (str slicing results are unspecified in this vstd; CBMC aborts on the larger harnesses).',
      'DESIGN.md §7 C07')
claim('C19', 'Verus contracts on the link-time diagnostics: columns recorded at emission, kept by append, reported by link / link_whiles; direct-line execution gate',
      V + ': every branch records the column of its line-number operand (WHILE / WEND: of the keyword), Link::append keeps it while re-basing, Link::link reports UNDEFINED LINE exactly for operands whose line symbol does not exist, at that column, and nothing spurious (every diagnostic is justified by an unresolvable operand or an unmatched WHILE / WEND record, matched like brackets); Program::clear forgets old diagnostics; a direct line with errors runs nothing. Not decided: parser column tracking, the display shift by the line-number prefix, which line an address belongs to (line_number_for is assumed), the run-time gate inside execute_loop.',
      'DESIGN.md §7 C19')
na('C05', 'Relates lex, Display for Token/Line and lex again; Display output reached through to_string() is an uninterpreted string in Verus and Kani does not finish on 2-character strings (measured): no contract within reach can state it over the real code. See DESIGN.md §7 C05.')
for _p, _r in [
    ('C14', 'only the RENUM guards (ILLEGAL DIRECT, compile errors, dirty flag) are under contract; the change-map loop and the textual splice are not: not claimed'),
    ('C16', 'the lexer unit proves termination and panic-freedom only; case-insensitivity of the scanners is a relational property that needs a spec of the literal grammar (not built): not claimed'),
]:
    na(_p, _r)
