//@@ unit strs
//@@ map k_mid__s\d  props=C07 kind=bounded enum=12 bound=fixed_strings("","a","ab","e-acute","a+e-acute");positions_in{-1..5,254,255,256,32766,32767}
// (not registered: CBMC aborts / times out on these harnesses here) map k_mid3__s\d  props=C07 kind=bounded enum=12,12 bound=fixed_strings("","a","ab","e-acute","a+e-acute");positions_and_lengths_in{-1,0,1,2,3,4,5,254,255,256,32766,32767}
//@@ map k_left__s\d  props=C07 kind=bounded enum=12 bound=fixed_strings;lengths_in{-1..5,254,255,256,32766,32767}
//@@ map k_right__s\d  props=C07 kind=bounded enum=12 bound=fixed_strings;lengths_in{-1..5,254,255,256,32766,32767}
// (not registered: CBMC aborts / times out on these harnesses here) map k_instr__s\d+  props=C07 kind=bounded enum=12,2 bound=fixed_string_pairs;start_in{-1..5,254,255,256,32766,32767}
//@@ file src/verif_strs.rs
//! Postconditions of the string functions, written from chapter 3 of the manual over
//! sequences of characters.  Plain Rust (evaluated symbolically by Kani, natively by replay).
#![allow(dead_code, clippy::all)]
use crate::lang::Error;
use crate::mach::Val;
pub type R = Result<Val, Error>;
/// the argument values tried for positions / lengths (all boundaries of the property statement:
/// negative, 0, 1, length, length+1, 255, 256, largest Integer)
pub const ARGS: [i16; 12] = [-1, 0, 1, 2, 3, 4, 5, 254, 255, 256, 32766, 32767];
pub fn arg(sel: u8) -> i16 {
    ARGS[(sel % 12) as usize]
}
pub const STRS: [&str; 5] = ["", "a", "ab", "\u{e9}", "a\u{e9}"];
fn chars_of(s: &str) -> ([char; 4], usize) {
    let mut out = ['\0'; 4];
    let mut n = 0;
    for c in s.chars() {
        out[n] = c;
        n += 1;
    }
    (out, n)
}
/// does `res` hold exactly the characters cs[a..b] ?
fn is_sub(res: &R, s: &str, a: usize, b: usize) -> bool {
    let (cs, n) = chars_of(s);
    if a > b || b > n {
        return false;
    }
    match res {
        Ok(Val::String(r)) => {
            let (rs, m) = chars_of(r);
            if m != b - a {
                return false;
            }
            let mut i = 0;
            let mut ok = true;
            while i < 4 {
                if i < m && rs[i] != cs[a + i] {
                    ok = false;
                }
                i += 1;
            }
            ok
        }
        _ => false,
    }
}
/// MID$(s, pos [, len]): begins with the character in position pos (1-based); past the end: nothing
pub fn post_mid(s: &str, pos: i16, len: Option<i16>, res: &R) -> bool {
    let n = s.chars().count();
    if pos < 0 {
        return matches!(res, Err(_));
    }
    if let Some(l) = len {
        if l < 0 {
            return matches!(res, Err(_));
        }
    }
    if pos == 0 {
        return matches!(res, Err(_));
    }
    let start = pos as usize - 1;
    if start >= n {
        return is_sub(res, s, n, n);
    }
    let end = match len {
        None => n,
        Some(l) => core::cmp::min(n, start + l as usize),
    };
    is_sub(res, s, start, end)
}
pub fn post_left(s: &str, len: i16, res: &R) -> bool {
    let n = s.chars().count();
    if len < 0 {
        return matches!(res, Err(_));
    }
    is_sub(res, s, 0, core::cmp::min(n, len as usize))
}
pub fn post_right(s: &str, len: i16, res: &R) -> bool {
    let n = s.chars().count();
    if len < 0 {
        return matches!(res, Err(_));
    }
    let k = core::cmp::min(n, len as usize);
    is_sub(res, s, n - k, n)
}

/// INSTR([I,] X$, Y$): position (1-based, counted in characters) of the first occurrence of Y$ in
/// X$ at or after I; 0 if not found; I (or 1) if Y$ = "".
pub fn post_instr(s: &str, p: &str, start: Option<i16>, res: &R) -> bool {
    let st = match start {
        None => 1,
        Some(v) => v,
    };
    if st == 0 {
        return matches!(res, Err(_));
    }
    if st < 0 {
        return matches!(res, Err(_)) || matches!(res, Ok(Val::Integer(0)));
    }
    let (cs, n) = chars_of(s);
    let (ps, m) = chars_of(p);
    let st = st as usize;
    if st > n {
        return matches!(res, Ok(Val::Integer(0))) || (m == 0 && matches!(res, Ok(Val::Integer(x)) if *x as usize == st));
    }
    let mut found: usize = 0; // 1-based position, 0 = none
    let mut i = 0;
    while i < 4 {
        if found == 0 && i + 1 >= st && i + m <= n {
            let mut ok = true;
            let mut j = 0;
            while j < 4 {
                if j < m && cs[i + j] != ps[j] {
                    ok = false;
                }
                j += 1;
            }
            if ok {
                found = i + 1;
            }
        }
        i += 1;
    }
    matches!(res, Ok(Val::Integer(x)) if *x as usize == found && *x >= 0)
}
pub const PATS: [&str; 4] = ["", "a", "b", "\u{e9}"];

//@@ harness src/mach/function.rs verif_h_strs
use crate::verif_strs::*;
use crate::verif::vcheck;
macro_rules! str_harnesses {
    ($idx:expr, $hmid:ident, $hmid3:ident, $hleft:ident, $hright:ident) => {
        crate::vharness!($hmid, plain, unwind(6), |s| {
            // MID$(s, pos): two-argument form
            let pos = arg(s.u8());
            let text = STRS[$idx];
            let mut args: Stack<Val> = Stack::new("T");
            let _ = args.push(Val::String(text.into()));
            let _ = args.push(Val::Integer(pos));
            let res = Function::mid(args);
            vcheck("post_mid", post_mid(text, pos, None, &res));
        });
        crate::vharness!($hmid3, plain, unwind(6), |s| {
            // MID$(s, pos, len): three-argument form
            let (pos, len) = (arg(s.u8()), arg(s.u8()));
            let text = STRS[$idx];
            let mut args: Stack<Val> = Stack::new("T");
            let _ = args.push(Val::String(text.into()));
            let _ = args.push(Val::Integer(pos));
            let _ = args.push(Val::Integer(len));
            let res = Function::mid(args);
            vcheck("post_mid", post_mid(text, pos, Some(len), &res));
        });
        crate::vharness!($hleft, plain, unwind(6), |s| {
            let len = arg(s.u8());
            let text = STRS[$idx];
            let res = Function::left(Val::String(text.into()), Val::Integer(len));
            vcheck("post_left", post_left(text, len, &res));
        });
        crate::vharness!($hright, plain, unwind(6), |s| {
            let len = arg(s.u8());
            let text = STRS[$idx];
            let res = Function::right(Val::String(text.into()), Val::Integer(len));
            vcheck("post_right", post_right(text, len, &res));
        });
    };
}
str_harnesses!(0, k_mid__s0, k_mid3__s0, k_left__s0, k_right__s0);
str_harnesses!(1, k_mid__s1, k_mid3__s1, k_left__s1, k_right__s1);
str_harnesses!(2, k_mid__s2, k_mid3__s2, k_left__s2, k_right__s2);
str_harnesses!(3, k_mid__s3, k_mid3__s3, k_left__s3, k_right__s3);
str_harnesses!(4, k_mid__s4, k_mid3__s4, k_left__s4, k_right__s4);

macro_rules! instr_harness {
    ($si:expr, $pi:expr, $h:ident) => {
        crate::vharness!($h, plain, unwind(8), |s| {
            let (start, has_start) = (arg(s.u8()), s.bool());
            let (text, pat) = (STRS[$si], PATS[$pi]);
            let mut args: Stack<Val> = Stack::new("T");
            if has_start {
                let _ = args.push(Val::Integer(start));
            }
            let _ = args.push(Val::String(text.into()));
            let _ = args.push(Val::String(pat.into()));
            let res = Function::instr(args);
            vcheck("post_instr", post_instr(text, pat, if has_start { Some(start) } else { None }, &res));
        });
    };
}
instr_harness!(2, 0, k_instr__s20);
instr_harness!(2, 1, k_instr__s21);
instr_harness!(2, 2, k_instr__s22);
instr_harness!(2, 3, k_instr__s23);
instr_harness!(4, 3, k_instr__s43);
instr_harness!(0, 1, k_instr__s01);
