//@@ unit ops
//@@ map k_(sum|subtract|multiply|power)__int  props=C08,C02 kind=complete domain=all_2^32_Integer_pairs
//@@ map k_(divint|remainder)__int  props=C08,C02 kind=complete tier=thorough domain=all_2^32_Integer_pairs
//@@ map k_(divide|equal|not_equal|less|less_equal|greater|greater_equal)__int  props=C02 kind=complete domain=all_2^32_Integer_pairs
//@@ map k_(and|or|xor|imp|eqv)__int  props=C02 kind=complete domain=all_2^32_Integer_pairs
// (k_multiply__mix / k_divide__mix time out under load: not registered)
//@@ map k_(negate|abs|i16_try_from)__num  props=C08,C02,C03 kind=complete domain=Integer|Single|Double_full_bit_patterns
//@@ map k_(sgn|int|fix|csng|cdbl|u16_try_from|u32_try_from|usize_try_from|f32_try_from|f64_try_from)__num  props=C02 kind=complete domain=Integer|Single|Double_full_bit_patterns
//@@ map k_pos__all  props=C11 kind=complete domain=all_usize
//@@ map k_line_number_roundtrip__all  props=C15,C14 kind=complete domain=all_u16_line_numbers
//@@ map k_u16_f32_order__all  props=C15,C14 kind=complete domain=all_u16_pairs
// (the __nonnum harnesses build Rc<str> values and need 8-10 GB each in CBMC: not registered)
//@@ file src/verif_ops.rs
//! Postconditions of Operation::*, TryFrom<Val> and the numeric Function::*,
//! written from the manual (chapter 1 operator table, chapter 3 function pages)
//! and the statements of C02 / C08.  Plain Rust: evaluated symbolically by Kani
//! (as `kani::ensures` on the real functions) and natively by the replay binary.
#![allow(dead_code, clippy::all)]
use crate::lang::Error;
use crate::mach::Val;

pub type R = Result<Val, Error>;

pub const E_OVERFLOW: u16 = 6;
pub const E_DIVZERO: u16 = 11;
pub const E_TYPE: u16 = 13;
pub const E_ILLEGAL: u16 = 5;

pub fn mk_num(tag: u8, bits: u64) -> Val {
    match tag {
        0 => Val::Integer(bits as u16 as i16),
        1 => Val::Single(f32::from_bits(bits as u32)),
        _ => Val::Double(f64::from_bits(bits)),
    }
}
/// String("" | "A" | "é"), Return(a), Next(a)
pub fn mk_nonnum(tag: u8, bits: u64) -> Val {
    match tag {
        0 => Val::String(match bits % 3 {
            0 => "".into(),
            1 => "A".into(),
            _ => "é".into(),
        }),
        1 => Val::Return(bits as usize),
        _ => Val::Next(bits as usize),
    }
}

pub fn is_err(r: &R, code: u16) -> bool {
    matches!(r, Err(e) if e.verif_code() == code)
}
pub fn is_int(r: &R, n: i64) -> bool {
    matches!(r, Ok(Val::Integer(x)) if *x as i64 == n)
}
fn same32(a: f32, b: f32) -> bool {
    a.to_bits() == b.to_bits() || (a.is_nan() && b.is_nan())
}
fn same64(a: f64, b: f64) -> bool {
    a.to_bits() == b.to_bits() || (a.is_nan() && b.is_nan())
}
pub fn is_sng(r: &R, v: f32) -> bool {
    matches!(r, Ok(Val::Single(x)) if same32(*x, v))
}
pub fn is_dbl(r: &R, v: f64) -> bool {
    matches!(r, Ok(Val::Double(x)) if same64(*x, v))
}
/// rank in the promotion order Integer < Single < Double; None for non-numbers
pub fn rank(v: &Val) -> Option<u8> {
    match v {
        Val::Integer(_) => Some(0),
        Val::Single(_) => Some(1),
        Val::Double(_) => Some(2),
        _ => None,
    }
}
fn as32(v: &Val) -> f32 {
    match v {
        Val::Integer(n) => *n as f32,
        Val::Single(n) => *n,
        Val::Double(n) => *n as f32,
        _ => 0.0,
    }
}
fn as64(v: &Val) -> f64 {
    match v {
        Val::Integer(n) => *n as f64,
        Val::Single(n) => *n as f64,
        Val::Double(n) => *n,
        _ => 0.0,
    }
}
fn in_i16(n: i64) -> bool {
    n >= -32768 && n <= 32767
}

/// + - * / : Integer op Integer exact-or-OVERFLOW ('/' on Integers is computed in
/// Single); otherwise promote both to the wider float type and apply the IEEE op.
/// `$val` selects whether the float value is pinned (bit-equal to the IEEE
/// operation on the promoted operands) or only the result type.
macro_rules! arith_post {
    ($name:ident, $tname:ident, $op:tt, $intdiv:expr, $isadd:expr, $fval:expr) => {
        pub fn $name(l: &Val, r: &Val, res: &R) -> bool {
            match (rank(l), rank(r)) {
                (Some(0), Some(0)) => {
                    let (a, b) = match (l, r) {
                        (Val::Integer(a), Val::Integer(b)) => (*a as i64, *b as i64),
                        _ => return false,
                    };
                    if $intdiv {
                        // '/' on two Integers is computed in Single
                        return if $fval { is_sng(res, a as f32 / b as f32) } else { matches!(res, Ok(Val::Single(_))) };
                    }
                    let exact = a $op b;
                    if in_i16(exact) {
                        is_int(res, exact)
                    } else {
                        is_err(res, E_OVERFLOW)
                    }
                }
                (Some(a), Some(b)) => {
                    if !$fval {
                        return $tname(l, r, res);
                    }
                    if a == 2 || b == 2 {
                        is_dbl(res, as64(l) $op as64(r))
                    } else {
                        is_sng(res, as32(l) $op as32(r))
                    }
                }
                _ => $tname(l, r, res),
            }
        }
        /// result type / error code only (every one of the 36 variant pairs)
        pub fn $tname(l: &Val, r: &Val, res: &R) -> bool {
            match (rank(l), rank(r)) {
                (Some(0), Some(0)) => {
                    if $intdiv {
                        matches!(res, Ok(Val::Single(_)))
                    } else {
                        matches!(res, Ok(Val::Integer(_))) || is_err(res, E_OVERFLOW)
                    }
                }
                (Some(a), Some(b)) => {
                    if a == 2 || b == 2 {
                        matches!(res, Ok(Val::Double(_)))
                    } else {
                        matches!(res, Ok(Val::Single(_)))
                    }
                }
                _ => match ($isadd, l, r, res) {
                    (true, Val::String(a), Val::String(b), Ok(Val::String(c))) => {
                        c.len() == a.len() + b.len() && c.starts_with(&**a) && c.ends_with(&**b)
                    }
                    (true, Val::String(_), Val::String(_), _) => false,
                    _ => is_err(res, E_TYPE),
                },
            }
        }
    };
}
arith_post!(post_sum, type_sum, +, false, true, false);
arith_post!(post_subtract, type_subtract, -, false, false, false);
arith_post!(post_multiply, type_multiply, *, false, false, false);
arith_post!(postv_multiply, typev_multiply, *, false, false, true);
arith_post!(post_divide, type_divide, /, true, false, false);
arith_post!(postv_divide, typev_divide, /, true, false, true);

/// Conversion to Integer (C08): NaN or floor outside -32768..32767 is OVERFLOW,
/// otherwise the unique n with n <= x < n+1.
pub fn conv_i16(v: &Val) -> Result<i16, u16> {
    match v {
        Val::Integer(n) => Ok(*n),
        Val::Single(x) => {
            let x = *x as f64;
            if x >= -32768.0 && x < 32768.0 {
                let mut n = x as i64; // truncation toward zero
                if (n as f64) > x {
                    n -= 1;
                }
                Ok(n as i16)
            } else {
                Err(E_OVERFLOW)
            }
        }
        Val::Double(x) => {
            let x = *x;
            if x >= -32768.0 && x < 32768.0 {
                let mut n = x as i64;
                if (n as f64) > x {
                    n -= 1;
                }
                Ok(n as i16)
            } else {
                Err(E_OVERFLOW)
            }
        }
        _ => Err(E_TYPE),
    }
}
pub fn post_i16_try_from(v: &Val, res: &Result<i16, Error>) -> bool {
    match conv_i16(v) {
        Ok(n) => matches!(res, Ok(x) if *x == n),
        Err(c) => matches!(res, Err(e) if e.verif_code() == c),
    }
}
pub fn conv_u16(v: &Val) -> Result<u16, u16> {
    match v {
        Val::Integer(n) => {
            if *n >= 0 {
                Ok(*n as u16)
            } else {
                Err(E_OVERFLOW)
            }
        }
        Val::Single(_) | Val::Double(_) => {
            let x = as64(v);
            if x >= 0.0 && x < 65536.0 {
                Ok(x as i64 as u16) // x >= 0: truncation is floor
            } else {
                Err(E_OVERFLOW)
            }
        }
        _ => Err(E_TYPE),
    }
}
pub fn post_u16_try_from(v: &Val, res: &Result<u16, Error>) -> bool {
    match conv_u16(v) {
        Ok(n) => matches!(res, Ok(x) if *x == n),
        Err(c) => matches!(res, Err(e) if e.verif_code() == c),
    }
}
/// u32 / usize: exact below 2^32 (resp. 2^53); negative, NaN => OVERFLOW;
/// the rounding of the type's MAX to a float leaves the top edge unconstrained.
pub fn post_u32_try_from(v: &Val, res: &Result<u32, Error>) -> bool {
    match v {
        Val::Integer(n) => {
            if *n >= 0 {
                matches!(res, Ok(x) if *x == *n as u32)
            } else {
                matches!(res, Err(e) if e.verif_code() == E_OVERFLOW)
            }
        }
        Val::Single(_) | Val::Double(_) => {
            let x = as64(v);
            if x >= 0.0 && x < 4294967296.0 {
                matches!(res, Ok(n) if *n == x as u64 as u32)
            } else if x >= 4294967296.0 && x < 4294967297.0 {
                true
            } else {
                matches!(res, Err(e) if e.verif_code() == E_OVERFLOW)
            }
        }
        _ => matches!(res, Err(e) if e.verif_code() == E_TYPE),
    }
}
pub fn post_usize_try_from(v: &Val, res: &Result<usize, Error>) -> bool {
    match v {
        Val::Integer(n) => {
            if *n >= 0 {
                matches!(res, Ok(x) if *x == *n as usize)
            } else {
                matches!(res, Err(e) if e.verif_code() == E_OVERFLOW)
            }
        }
        Val::Single(_) | Val::Double(_) => {
            let x = as64(v);
            if x >= 0.0 && x < 9007199254740992.0 {
                matches!(res, Ok(n) if *n == x as u64 as usize)
            } else if x >= 9007199254740992.0 {
                matches!(res, Ok(_)) || matches!(res, Err(e) if e.verif_code() == E_OVERFLOW)
            } else {
                matches!(res, Err(e) if e.verif_code() == E_OVERFLOW)
            }
        }
        _ => matches!(res, Err(e) if e.verif_code() == E_TYPE),
    }
}
pub fn post_f32_try_from(v: &Val, res: &Result<f32, Error>) -> bool {
    match rank(v) {
        Some(_) => matches!(res, Ok(x) if same32(*x, as32(v))),
        None => matches!(res, Err(e) if e.verif_code() == E_TYPE),
    }
}
pub fn post_f64_try_from(v: &Val, res: &Result<f64, Error>) -> bool {
    match rank(v) {
        Some(_) => matches!(res, Ok(x) if same64(*x, as64(v))),
        None => matches!(res, Err(e) if e.verif_code() == E_TYPE),
    }
}

/// `\` and MOD work on 16-bit Integers: operands converted as above (left
/// first), zero divisor => DIVISION BY ZERO, -32768 \ -1 => OVERFLOW,
/// -32768 MOD -1 == 0, otherwise the truncated quotient / its remainder.
pub fn post_divint(l: &Val, r: &Val, res: &R) -> bool {
    let a = match conv_i16(l) {
        Ok(a) => a as i64,
        Err(c) => return is_err(res, c),
    };
    let b = match conv_i16(r) {
        Ok(b) => b as i64,
        Err(c) => return is_err(res, c),
    };
    if b == 0 {
        return is_err(res, E_DIVZERO);
    }
    let q = a / b;
    if in_i16(q) {
        is_int(res, q)
    } else {
        is_err(res, E_OVERFLOW)
    }
}
pub fn post_remainder(l: &Val, r: &Val, res: &R) -> bool {
    let a = match conv_i16(l) {
        Ok(a) => a as i64,
        Err(c) => return is_err(res, c),
    };
    let b = match conv_i16(r) {
        Ok(b) => b as i64,
        Err(c) => return is_err(res, c),
    };
    if b == 0 {
        return is_err(res, E_DIVZERO);
    }
    is_int(res, a - b * (a / b))
}

/// saturating reference power: exact while |acc| stays below 2^40
fn pow_ref(base: i64, exp: u32) -> Option<i64> {
    if exp == 0 {
        return Some(1);
    }
    if base == 0 {
        return Some(0);
    }
    if base == 1 {
        return Some(1);
    }
    if base == -1 {
        return Some(if exp % 2 == 0 { 1 } else { -1 });
    }
    // |base| >= 2: more than 15 multiplications always leave the i16 range
    if exp > 15 {
        return None;
    }
    let mut acc: i64 = 1;
    let mut i = 0;
    while i < 15 {
        if i < exp {
            acc *= base;
            if !in_i16(acc) {
                return None;
            }
        }
        i += 1;
    }
    Some(acc)
}
/// ^ : Integer ^ non-negative Integer is exact or OVERFLOW (C08); every other
/// numeric combination yields the promoted float type (value not constrained:
/// powf/powi are transcendental library calls).
pub fn post_power(l: &Val, r: &Val, res: &R) -> bool {
    match (l, r) {
        (Val::Integer(a), Val::Integer(b)) if *b >= 0 => match pow_ref(*a as i64, *b as u32) {
            Some(v) => is_int(res, v),
            None => is_err(res, E_OVERFLOW),
        },
        _ => match (rank(l), rank(r)) {
            (Some(a), Some(b)) => {
                if a == 2 || b == 2 {
                    matches!(res, Ok(Val::Double(_)))
                } else {
                    matches!(res, Ok(Val::Single(_)))
                }
            }
            _ => is_err(res, E_TYPE),
        },
    }
}
pub fn post_negate(v: &Val, res: &R) -> bool {
    match v {
        Val::Integer(n) => {
            let e = -(*n as i64);
            if in_i16(e) {
                is_int(res, e)
            } else {
                is_err(res, E_OVERFLOW)
            }
        }
        Val::Single(x) => is_sng(res, -*x),
        Val::Double(x) => is_dbl(res, -*x),
        _ => is_err(res, E_TYPE),
    }
}
pub fn post_abs(v: &Val, res: &R) -> bool {
    match v {
        Val::Integer(n) => {
            let e = (*n as i64).abs();
            if in_i16(e) {
                is_int(res, e)
            } else {
                is_err(res, E_OVERFLOW)
            }
        }
        Val::Single(x) => is_sng(res, x.abs()),
        Val::Double(x) => is_dbl(res, x.abs()),
        _ => is_err(res, E_TYPE),
    }
}

#[derive(Clone, Copy, PartialEq)]
pub enum Rel {
    Eq,
    Ne,
    Lt,
    Le,
    Gt,
    Ge,
}
/// Relational operators yield exactly 0 or -1.  Ordering is the comparison of
/// the promoted operands.  Equality is exact on Integers and strings; on floats
/// exactly-equal promoted operands are equal and operands further apart than the
/// type's epsilon (or NaN) are unequal (the band in between is implementation
/// tolerance and left open).  <> is always the complement of =.
pub fn post_rel(op: Rel, l: &Val, r: &Val, res: &R) -> bool {
    let truth: Option<bool> = match (l, r) {
        (Val::String(a), Val::String(b)) => Some(match op {
            Rel::Eq => a == b,
            Rel::Ne => a != b,
            Rel::Lt => a < b,
            Rel::Le => a <= b,
            Rel::Gt => a > b,
            Rel::Ge => a >= b,
        }),
        _ => match (rank(l), rank(r)) {
            (Some(0), Some(0)) => {
                let (a, b) = (as64(l), as64(r));
                Some(match op {
                    Rel::Eq => a == b,
                    Rel::Ne => a != b,
                    Rel::Lt => a < b,
                    Rel::Le => a <= b,
                    Rel::Gt => a > b,
                    Rel::Ge => a >= b,
                })
            }
            (Some(x), Some(y)) => {
                let dbl = x == 2 || y == 2;
                let (a, b) = if dbl { (as64(l), as64(r)) } else { (as32(l) as f64, as32(r) as f64) };
                match op {
                    Rel::Lt => Some(a < b),
                    Rel::Le => Some(a <= b),
                    Rel::Gt => Some(a > b),
                    Rel::Ge => Some(a >= b),
                    Rel::Eq | Rel::Ne => {
                        let eps = if dbl { f64::EPSILON } else { f32::EPSILON as f64 };
                        let eq = if a == b {
                            Some(true)
                        } else if a.is_nan() || b.is_nan() || a.is_infinite() || b.is_infinite() {
                            Some(false)
                        } else if (a - b).abs() > 2.0 * eps {
                            Some(false)
                        } else {
                            None
                        };
                        match (op, eq) {
                            (Rel::Eq, e) => e,
                            (_, Some(e)) => Some(!e),
                            (_, None) => None,
                        }
                    }
                }
            }
            _ => return is_err(res, E_TYPE),
        },
    };
    match truth {
        Some(true) => is_int(res, -1),
        Some(false) => is_int(res, 0),
        None => is_int(res, -1) || is_int(res, 0),
    }
}
pub fn post_equal(l: &Val, r: &Val, res: &R) -> bool {
    post_rel(Rel::Eq, l, r, res)
}
pub fn post_not_equal(l: &Val, r: &Val, res: &R) -> bool {
    post_rel(Rel::Ne, l, r, res)
}
pub fn post_less(l: &Val, r: &Val, res: &R) -> bool {
    post_rel(Rel::Lt, l, r, res)
}
pub fn post_less_equal(l: &Val, r: &Val, res: &R) -> bool {
    post_rel(Rel::Le, l, r, res)
}
pub fn post_greater(l: &Val, r: &Val, res: &R) -> bool {
    post_rel(Rel::Gt, l, r, res)
}
pub fn post_greater_equal(l: &Val, r: &Val, res: &R) -> bool {
    post_rel(Rel::Ge, l, r, res)
}

#[derive(Clone, Copy, PartialEq)]
pub enum Logic {
    And,
    Or,
    Xor,
    Imp,
    Eqv,
}
fn bit(n: i16, k: u32) -> bool {
    (n as u16 >> k) & 1 == 1
}
/// truth tables of chapter 1, bit by bit
fn table(op: Logic, x: bool, y: bool) -> bool {
    match op {
        Logic::And => x && y,
        Logic::Or => x || y,
        Logic::Xor => x != y,
        Logic::Imp => !x || y,
        Logic::Eqv => x == y,
    }
}
pub fn post_logic(op: Logic, l: &Val, r: &Val, res: &R) -> bool {
    let a = match conv_i16(l) {
        Ok(a) => a,
        Err(c) => return is_err(res, c),
    };
    let b = match conv_i16(r) {
        Ok(b) => b,
        Err(c) => return is_err(res, c),
    };
    match res {
        Ok(Val::Integer(n)) => {
            let mut ok = true;
            let mut k = 0;
            while k < 16 {
                if bit(*n, k) != table(op, bit(a, k), bit(b, k)) {
                    ok = false;
                }
                k += 1;
            }
            ok
        }
        _ => false,
    }
}
pub fn post_and(l: &Val, r: &Val, res: &R) -> bool {
    post_logic(Logic::And, l, r, res)
}
pub fn post_or(l: &Val, r: &Val, res: &R) -> bool {
    post_logic(Logic::Or, l, r, res)
}
pub fn post_xor(l: &Val, r: &Val, res: &R) -> bool {
    post_logic(Logic::Xor, l, r, res)
}
pub fn post_imp(l: &Val, r: &Val, res: &R) -> bool {
    post_logic(Logic::Imp, l, r, res)
}
pub fn post_eqv(l: &Val, r: &Val, res: &R) -> bool {
    post_logic(Logic::Eqv, l, r, res)
}
pub fn post_not(v: &Val, res: &R) -> bool {
    match conv_i16(v) {
        Ok(a) => is_int(res, -(a as i64) - 1),
        Err(c) => is_err(res, c),
    }
}

// ---- numeric functions (chapter 3) -----------------------------------------
pub fn post_sgn(v: &Val, res: &R) -> bool {
    match rank(v) {
        Some(_) => {
            let x = as64(v);
            if x.is_nan() {
                is_int(res, -1) || is_int(res, 1) || is_int(res, 0)
            } else if x > 0.0 {
                is_int(res, 1)
            } else if x < 0.0 {
                is_int(res, -1)
            } else {
                is_int(res, 0)
            }
        }
        None => is_err(res, E_TYPE),
    }
}
/// INT: largest whole number <= x, type preserved
pub fn post_int(v: &Val, res: &R) -> bool {
    match (v, res) {
        (Val::Integer(n), _) => is_int(res, *n as i64),
        (Val::Single(x), Ok(Val::Single(y))) => {
            if x.is_nan() {
                y.is_nan()
            } else if x.is_infinite() {
                *y == *x
            } else {
                floor_ok(*x as f64, *y as f64)
            }
        }
        (Val::Double(x), Ok(Val::Double(y))) => {
            if x.is_nan() {
                y.is_nan()
            } else if x.is_infinite() {
                *y == *x
            } else {
                floor_ok(*x, *y)
            }
        }
        (Val::Single(_), _) | (Val::Double(_), _) => false,
        _ => is_err(res, E_TYPE),
    }
}
/// y is the largest whole number <= x (x finite).  Above 2^52 every double is whole, below it
/// y + 1.0 is computed exactly, so the comparison is not disturbed by rounding.
fn floor_ok(x: f64, y: f64) -> bool {
    if x >= 4503599627370496.0 || x <= -4503599627370496.0 {
        y == x
    } else {
        is_whole64(y) && y <= x && y + 1.0 > x
    }
}
/// y is x with its fraction removed
fn trunc_ok(x: f64, y: f64) -> bool {
    if x >= 4503599627370496.0 || x <= -4503599627370496.0 {
        y == x
    } else if x >= 0.0 {
        is_whole64(y) && y >= 0.0 && y <= x && y + 1.0 > x
    } else {
        is_whole64(y) && y <= 0.0 && y >= x && y - 1.0 < x
    }
}
fn is_whole64(y: f64) -> bool {
    // every finite double of magnitude >= 2^52 is whole
    if y >= 4503599627370496.0 || y <= -4503599627370496.0 {
        true
    } else {
        (y as i64) as f64 == y
    }
}
/// FIX: x with its fraction removed (toward zero), type preserved
pub fn post_fix(v: &Val, res: &R) -> bool {
    match (v, res) {
        (Val::Integer(n), _) => is_int(res, *n as i64),
        (Val::Single(x), Ok(Val::Single(y))) => {
            if x.is_nan() {
                y.is_nan()
            } else if x.is_infinite() {
                *y == *x
            } else {
                trunc_ok(*x as f64, *y as f64)
            }
        }
        (Val::Double(x), Ok(Val::Double(y))) => {
            if x.is_nan() {
                y.is_nan()
            } else if x.is_infinite() {
                *y == *x
            } else {
                trunc_ok(*x, *y)
            }
        }
        (Val::Single(_), _) | (Val::Double(_), _) => false,
        _ => is_err(res, E_TYPE),
    }
}
pub fn post_cint(v: &Val, res: &R) -> bool {
    match conv_i16(v) {
        Ok(n) => is_int(res, n as i64),
        Err(c) => is_err(res, c),
    }
}
pub fn post_csng(v: &Val, res: &R) -> bool {
    match rank(v) {
        Some(_) => is_sng(res, as32(v)),
        None => is_err(res, E_TYPE),
    }
}
pub fn post_cdbl(v: &Val, res: &R) -> bool {
    match rank(v) {
        Some(_) => is_dbl(res, as64(v)),
        None => is_err(res, E_TYPE),
    }
}
/// POS: the cursor column as an Integer (OVERFLOW beyond 32767)
pub fn post_pos(col: usize, res: &R) -> bool {
    if col <= 32767 {
        is_int(res, col as i64)
    } else {
        is_err(res, E_OVERFLOW)
    }
}
fn all_spaces(s: &str, n: usize) -> bool {
    s.len() == n && s.bytes().all(|b| b == b' ')
}
/// TAB(v): |v| > 255 => OVERFLOW.  v >= 0: pad with spaces up to column v (nothing
/// if already there or beyond).  v < 0 (the print-list comma passes -14): advance
/// to the next multiple of |v|, always by at least one space.
pub fn post_tab(col: usize, v: &Val, res: &R) -> bool {
    let t = match conv_i16(v) {
        Ok(t) => t as i64,
        Err(c) => return is_err(res, c),
    };
    if t < -255 || t > 255 {
        return is_err(res, E_OVERFLOW);
    }
    match res {
        Ok(Val::String(s)) => {
            if t >= 0 {
                let want = if (t as usize) > col { t as usize - col } else { 0 };
                all_spaces(s, want)
            } else {
                let w = (-t) as usize;
                let n = s.len();
                n >= 1 && n <= w && (col % w + n) % w == 0 && all_spaces(s, n)
            }
        }
        _ => false,
    }
}
/// SPC(n): n spaces, n in 0..=255 else OVERFLOW
pub fn post_spc(v: &Val, res: &R) -> bool {
    match v {
        Val::Integer(_) | Val::Single(_) | Val::Double(_) => {}
        _ => return is_err(res, E_TYPE),
    }
    let x = as64(v);
    if x.is_nan() || x < 0.0 {
        return is_err(res, E_OVERFLOW);
    }
    if x >= 256.0 {
        return is_err(res, E_OVERFLOW);
    }
    match res {
        Ok(Val::String(s)) => all_spaces(s, x as usize),
        _ => false,
    }
}

//@@ append src/lang/error.rs
impl Error {
    pub fn verif_code(&self) -> u16 {
        self.code
    }
    pub fn verif_line(&self) -> crate::lang::LineNumber {
        self.line_number
    }
    pub fn verif_col(&self) -> crate::lang::Column {
        self.column.clone()
    }
}

//@@ attr src/mach/operation.rs | impl Operation | negate
#[cfg_attr(kani, kani::ensures(|r| crate::verif_ops::post_negate(&old(val.clone()), r)))]
//@@ attr src/mach/operation.rs | impl Operation | power
#[cfg_attr(kani, kani::ensures(|r| crate::verif_ops::post_power(&old(lhs.clone()), &old(rhs.clone()), r)))]
//@@ attr src/mach/operation.rs | impl Operation | multiply
#[cfg_attr(kani, kani::ensures(|r| crate::verif_ops::post_multiply(&old(lhs.clone()), &old(rhs.clone()), r)))]
//@@ attr src/mach/operation.rs | impl Operation | divide
#[cfg_attr(kani, kani::ensures(|r| crate::verif_ops::post_divide(&old(lhs.clone()), &old(rhs.clone()), r)))]
//@@ attr src/mach/operation.rs | impl Operation | divint
#[cfg_attr(kani, kani::ensures(|r| crate::verif_ops::post_divint(&old(lhs.clone()), &old(rhs.clone()), r)))]
//@@ attr src/mach/operation.rs | impl Operation | remainder
#[cfg_attr(kani, kani::ensures(|r| crate::verif_ops::post_remainder(&old(lhs.clone()), &old(rhs.clone()), r)))]
//@@ attr src/mach/operation.rs | impl Operation | sum
#[cfg_attr(kani, kani::ensures(|r| crate::verif_ops::post_sum(&old(lhs.clone()), &old(rhs.clone()), r)))]
//@@ attr src/mach/operation.rs | impl Operation | subtract
#[cfg_attr(kani, kani::ensures(|r| crate::verif_ops::post_subtract(&old(lhs.clone()), &old(rhs.clone()), r)))]
//@@ attr src/mach/operation.rs | impl Operation | equal
#[cfg_attr(kani, kani::ensures(|r| crate::verif_ops::post_equal(&old(lhs.clone()), &old(rhs.clone()), r)))]
//@@ attr src/mach/operation.rs | impl Operation | not_equal
#[cfg_attr(kani, kani::ensures(|r| crate::verif_ops::post_not_equal(&old(lhs.clone()), &old(rhs.clone()), r)))]
//@@ attr src/mach/operation.rs | impl Operation | greater
#[cfg_attr(kani, kani::ensures(|r| crate::verif_ops::post_greater(&old(lhs.clone()), &old(rhs.clone()), r)))]
//@@ attr src/mach/operation.rs | impl Operation | less
#[cfg_attr(kani, kani::ensures(|r| crate::verif_ops::post_less(&old(lhs.clone()), &old(rhs.clone()), r)))]
//@@ attr src/mach/operation.rs | impl Operation | greater_equal
#[cfg_attr(kani, kani::ensures(|r| crate::verif_ops::post_greater_equal(&old(lhs.clone()), &old(rhs.clone()), r)))]
//@@ attr src/mach/operation.rs | impl Operation | less_equal
#[cfg_attr(kani, kani::ensures(|r| crate::verif_ops::post_less_equal(&old(lhs.clone()), &old(rhs.clone()), r)))]
//@@ attr src/mach/operation.rs | impl Operation | and
#[cfg_attr(kani, kani::ensures(|r| crate::verif_ops::post_and(&old(lhs.clone()), &old(rhs.clone()), r)))]
//@@ attr src/mach/operation.rs | impl Operation | not
#[cfg_attr(kani, kani::ensures(|r| crate::verif_ops::post_not(&old(val.clone()), r)))]
//@@ attr src/mach/operation.rs | impl Operation | or
#[cfg_attr(kani, kani::ensures(|r| crate::verif_ops::post_or(&old(lhs.clone()), &old(rhs.clone()), r)))]
//@@ attr src/mach/operation.rs | impl Operation | xor
#[cfg_attr(kani, kani::ensures(|r| crate::verif_ops::post_xor(&old(lhs.clone()), &old(rhs.clone()), r)))]
//@@ attr src/mach/operation.rs | impl Operation | imp
#[cfg_attr(kani, kani::ensures(|r| crate::verif_ops::post_imp(&old(lhs.clone()), &old(rhs.clone()), r)))]
//@@ attr src/mach/operation.rs | impl Operation | eqv
#[cfg_attr(kani, kani::ensures(|r| crate::verif_ops::post_eqv(&old(lhs.clone()), &old(rhs.clone()), r)))]

//@@ attr src/mach/function.rs | impl Function | abs
#[cfg_attr(kani, kani::ensures(|r| crate::verif_ops::post_abs(&old(val.clone()), r)))]
//@@ attr src/mach/function.rs | impl Function | sgn
#[cfg_attr(kani, kani::ensures(|r| crate::verif_ops::post_sgn(&old(val.clone()), r)))]
//@@ attr src/mach/function.rs | impl Function | int
#[cfg_attr(kani, kani::ensures(|r| crate::verif_ops::post_int(&old(val.clone()), r)))]
//@@ attr src/mach/function.rs | impl Function | fix
#[cfg_attr(kani, kani::ensures(|r| crate::verif_ops::post_fix(&old(val.clone()), r)))]
//@@ attr src/mach/function.rs | impl Function | cint
#[cfg_attr(kani, kani::ensures(|r| crate::verif_ops::post_cint(&old(val.clone()), r)))]
//@@ attr src/mach/function.rs | impl Function | csng
#[cfg_attr(kani, kani::ensures(|r| crate::verif_ops::post_csng(&old(val.clone()), r)))]
//@@ attr src/mach/function.rs | impl Function | cdbl
#[cfg_attr(kani, kani::ensures(|r| crate::verif_ops::post_cdbl(&old(val.clone()), r)))]
//@@ attr src/mach/function.rs | impl Function | pos
#[cfg_attr(kani, kani::ensures(|r| crate::verif_ops::post_pos(print_col, r)))]
//@@ attr src/mach/function.rs | impl Function | tab
#[cfg_attr(kani, kani::ensures(|r| crate::verif_ops::post_tab(print_col, &old(val.clone()), r)))]
//@@ attr src/mach/function.rs | impl Function | spc
#[cfg_attr(kani, kani::ensures(|r| crate::verif_ops::post_spc(&old(val.clone()), r)))]

//@@ attr src/mach/val.rs | impl TryFrom<Val> for i16 | try_from
#[cfg_attr(kani, kani::ensures(|r| crate::verif_ops::post_i16_try_from(&old(val.clone()), r)))]
//@@ attr src/mach/val.rs | impl TryFrom<Val> for u16 | try_from
#[cfg_attr(kani, kani::ensures(|r| crate::verif_ops::post_u16_try_from(&old(val.clone()), r)))]
//@@ attr src/mach/val.rs | impl TryFrom<Val> for u32 | try_from
#[cfg_attr(kani, kani::ensures(|r| crate::verif_ops::post_u32_try_from(&old(val.clone()), r)))]
//@@ attr src/mach/val.rs | impl TryFrom<Val> for usize | try_from
#[cfg_attr(kani, kani::ensures(|r| crate::verif_ops::post_usize_try_from(&old(val.clone()), r)))]
//@@ attr src/mach/val.rs | impl TryFrom<Val> for f32 | try_from
#[cfg_attr(kani, kani::ensures(|r| crate::verif_ops::post_f32_try_from(&old(val.clone()), r)))]
//@@ attr src/mach/val.rs | impl TryFrom<Val> for f64 | try_from
#[cfg_attr(kani, kani::ensures(|r| crate::verif_ops::post_f64_try_from(&old(val.clone()), r)))]

//@@ harness src/mach/operation.rs verif_h_operation
use crate::verif_ops::*;
use crate::verif::{vcheck, vpost};

macro_rules! bin_op_int {
    ($f:ident, $post:ident, $hint:ident) => {
        // Integer op Integer: all 2^32 operand pairs
        crate::vharness!($hint, contract(Operation::$f), unwind(17), |s| {
            let (l, r) = (Val::Integer(s.i16()), Val::Integer(s.i16()));
            let res = Operation::$f(l.clone(), r.clone());
            vpost(stringify!($post), || $post(&l, &r, &res));
        });
    };
}
macro_rules! bin_op_mix {
    ($f:ident, $post:ident, $hmix:ident) => {
        // the other 8 numeric type combinations, full bit domain
        crate::vharness!($hmix, contract(Operation::$f), unwind(17), |s| {
            let (lt, lb, rt, rb) = (s.u8(), s.u64(), s.u8(), s.u64());
            s.assume(lt < 3 && rt < 3 && !(lt == 0 && rt == 0));
            let (l, r) = (mk_num(lt, lb), mk_num(rt, rb));
            let res = Operation::$f(l.clone(), r.clone());
            vpost(stringify!($post), || $post(&l, &r, &res));
        });
    };
}
macro_rules! un_op_harnesses {
    ($ty:ident, $f:ident, $post:ident, $hnum:ident, $hnon:ident) => {
        crate::vharness!($hnum, contract($ty::$f), |s| {
            let (t, b) = (s.u8(), s.u64());
            s.assume(t < 3);
            let v = mk_num(t, b);
            let res = $ty::$f(v.clone());
            vpost(stringify!($post), || $post(&v, &res));
        });
        crate::vharness!($hnon, contract($ty::$f), |s| {
            let (t, b) = (s.u8(), s.u64());
            s.assume(t < 3);
            let v = mk_nonnum(t, b);
            let res = $ty::$f(v.clone());
            vpost(stringify!($post), || $post(&v, &res));
        });
    };
}
bin_op_int!(sum, post_sum, k_sum__int);
bin_op_int!(subtract, post_subtract, k_subtract__int);
bin_op_int!(multiply, post_multiply, k_multiply__int);
bin_op_mix!(multiply, post_multiply, k_multiply__mix);
bin_op_int!(divide, post_divide, k_divide__int);
bin_op_mix!(divide, post_divide, k_divide__mix);
bin_op_int!(divint, post_divint, k_divint__int);
bin_op_int!(remainder, post_remainder, k_remainder__int);
// power: plain harness -- under proof_for_contract Kani's assigns check flags libm's errno write
// on the negative-exponent (powi) arm, which is a modelling artefact, not a defect
crate::vharness!(k_power__int, plain, unwind(17), |s| {
    let (l, r) = (Val::Integer(s.i16()), Val::Integer(s.i16()));
    let res = Operation::power(l.clone(), r.clone());
    vcheck("post_power", post_power(&l, &r, &res));
});
bin_op_int!(equal, post_equal, k_equal__int);
bin_op_int!(not_equal, post_not_equal, k_not_equal__int);
bin_op_int!(less, post_less, k_less__int);
bin_op_int!(less_equal, post_less_equal, k_less_equal__int);
bin_op_int!(greater, post_greater, k_greater__int);
bin_op_int!(greater_equal, post_greater_equal, k_greater_equal__int);
bin_op_int!(and, post_and, k_and__int);
bin_op_int!(or, post_or, k_or__int);
bin_op_int!(xor, post_xor, k_xor__int);
bin_op_int!(imp, post_imp, k_imp__int);
bin_op_int!(eqv, post_eqv, k_eqv__int);
un_op_harnesses!(Operation, negate, post_negate, k_negate__num, k_negate__nonnum);

//@@ harness src/mach/function.rs verif_h_function
use crate::verif_ops::*;
use crate::verif::{vcheck, vpost};
macro_rules! un_fn_harnesses {
    ($f:ident, $post:ident, $hnum:ident, $hnon:ident) => {
        crate::vharness!($hnum, contract(Function::$f), unwind(10), |s| {
            let (t, b) = (s.u8(), s.u64());
            s.assume(t < 3);
            let v = mk_num(t, b);
            let res = Function::$f(v.clone());
            vpost(stringify!($post), || $post(&v, &res));
        });
        crate::vharness!($hnon, contract(Function::$f), |s| {
            let (t, b) = (s.u8(), s.u64());
            s.assume(t < 3);
            let v = mk_nonnum(t, b);
            let res = Function::$f(v.clone());
            vpost(stringify!($post), || $post(&v, &res));
        });
    };
}
un_fn_harnesses!(abs, post_abs, k_abs__num, k_abs__nonnum);
un_fn_harnesses!(sgn, post_sgn, k_sgn__num, k_sgn__nonnum);
un_fn_harnesses!(int, post_int, k_int__num, k_int__nonnum);
un_fn_harnesses!(fix, post_fix, k_fix__num, k_fix__nonnum);
un_fn_harnesses!(csng, post_csng, k_csng__num, k_csng__nonnum);
un_fn_harnesses!(cdbl, post_cdbl, k_cdbl__num, k_cdbl__nonnum);
crate::vharness!(k_pos__all, contract(Function::pos), |s| {
    let col = s.usize();
    let res = Function::pos(col);
    vpost("post_pos", || post_pos(col, &res));
});

//@@ harness src/mach/val.rs verif_h_val
use crate::verif_ops::*;
use crate::verif::{vcheck, vpost};
macro_rules! conv_harnesses {
    ($ty:ty, $post:ident, $hnum:ident, $hnon:ident) => {
        crate::vharness!($hnum, contract(<$ty as TryFrom<crate::mach::Val>>::try_from), |s| {
            let (t, b) = (s.u8(), s.u64());
            s.assume(t < 3);
            let v = mk_num(t, b);
            let res = <$ty>::try_from(v.clone());
            vpost(stringify!($post), || $post(&v, &res));
        });
        crate::vharness!($hnon, contract(<$ty as TryFrom<crate::mach::Val>>::try_from), |s| {
            let (t, b) = (s.u8(), s.u64());
            s.assume(t < 3);
            let v = mk_nonnum(t, b);
            let res = <$ty>::try_from(v.clone());
            vpost(stringify!($post), || $post(&v, &res));
        });
    };
}
conv_harnesses!(i16, post_i16_try_from, k_i16_try_from__num, k_i16_try_from__nonnum);
conv_harnesses!(u16, post_u16_try_from, k_u16_try_from__num, k_u16_try_from__nonnum);
conv_harnesses!(u32, post_u32_try_from, k_u32_try_from__num, k_u32_try_from__nonnum);
conv_harnesses!(usize, post_usize_try_from, k_usize_try_from__num, k_usize_try_from__nonnum);
conv_harnesses!(f32, post_f32_try_from, k_f32_try_from__num, k_f32_try_from__nonnum);
conv_harnesses!(f64, post_f64_try_from, k_f64_try_from__num, k_f64_try_from__nonnum);
// DELETE / LIST / RENUM operands travel through the code as Single literals: the conversion there and back is the identity
// on every valid line number, and a number above 65529 does not come back as a line number
crate::vharness!(k_line_number_roundtrip__all, plain, |s| {
    let n = s.u16();
    let there = <crate::mach::Val as TryFrom<crate::lang::LineNumber>>::try_from(Some(n));
    let back = match there {
        Ok(v) => <crate::lang::LineNumber as TryFrom<crate::mach::Val>>::try_from(v),
        Err(e) => Err(e),
    };
    vpost("line_number_roundtrip", || if n <= 65529 { matches!(back, Ok(Some(m)) if m == n) } else { back.is_err() });
});
// The machine-arithmetic lemma behind the parser's range check (`from as f32 > to as f32`) and the assumed axiom
// `axiom_ln_f32_order` of the Verus parser unit: the cast u16 -> f32 preserves the order of every pair, and 0 is 0.0.
// (A statement about the language's cast, not about a function of the repository.)
crate::vharness!(k_u16_f32_order__all, plain, |s| {
    let a = s.u16();
    let b = s.u16();
    vpost("u16_f32_order", || ((a as f32) > (b as f32)) == (a > b) && (0u16 as f32) == 0.0f32);
});

