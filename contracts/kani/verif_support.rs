//! Support code shared by the Kani harnesses and the native replay binary.
//! Compiled into the scratch crate as `crate::verif` (see tools/kani_unit.py).
#![allow(dead_code, unused_variables, unused_mut)]

/// Source of harness inputs: `kani::any()` under Kani, the verifier's concrete
/// counterexample bytes (in `kani::any()` call order) in the native replay.
pub struct Src {
    #[cfg(not(kani))]
    pub vals: std::collections::VecDeque<Vec<u8>>,
}

macro_rules! src_scalar {
    ($name:ident, $t:ty, $n:expr) => {
        pub fn $name(&mut self) -> $t {
            #[cfg(kani)]
            {
                kani::any()
            }
            #[cfg(not(kani))]
            {
                let v = self.vals.pop_front().expect("replay: ran out of concrete values");
                let mut b = [0u8; $n];
                b.copy_from_slice(&v[..$n]);
                <$t>::from_le_bytes(b)
            }
        }
    };
}

impl Src {
    #[cfg(kani)]
    pub fn new() -> Src {
        Src {}
    }
    #[cfg(not(kani))]
    pub fn new(vals: Vec<Vec<u8>>) -> Src {
        Src { vals: vals.into() }
    }
    src_scalar!(u8, u8, 1);
    src_scalar!(i16, i16, 2);
    src_scalar!(u16, u16, 2);
    src_scalar!(i32, i32, 4);
    src_scalar!(u32, u32, 4);
    src_scalar!(u64, u64, 8);
    src_scalar!(usize, usize, 8);
    pub fn bool(&mut self) -> bool {
        #[cfg(kani)]
        {
            kani::any()
        }
        #[cfg(not(kani))]
        {
            self.vals.pop_front().expect("replay: ran out of concrete values")[0] != 0
        }
    }
    pub fn f32(&mut self) -> f32 {
        #[cfg(kani)]
        {
            kani::any()
        }
        #[cfg(not(kani))]
        {
            f32::from_bits(self.u32())
        }
    }
    pub fn f64(&mut self) -> f64 {
        #[cfg(kani)]
        {
            kani::any()
        }
        #[cfg(not(kani))]
        {
            f64::from_bits(self.u64())
        }
    }
    pub fn assume(&mut self, c: bool) {
        #[cfg(kani)]
        kani::assume(c);
        #[cfg(not(kani))]
        if !c {
            println!("REPLAY-ASSUME-FALSE");
            std::process::exit(3);
        }
    }
}

/// Evaluate a postcondition: an assertion under Kani, a CONFIRMED line natively.
pub fn vcheck(what: &str, c: bool) {
    #[cfg(kani)]
    assert!(c, "{}", what);
    #[cfg(not(kani))]
    if !c {
        println!("CONFIRMED postcondition-false: {}", what);
    } else {
        println!("HOLDS {}", what);
    }
}

/// Postcondition of a function whose `kani::ensures` contract is being proved
/// by `proof_for_contract`: Kani checks the spliced contract itself, so this is a
/// no-op there; the native replay evaluates it on the concrete counterexample.
pub fn vpost<F: FnOnce() -> bool>(what: &str, c: F) {
    // (with --cfg verif_assert, used only when a failing harness is re-run for a counterexample,
    //  the postcondition is also asserted so that Kani's concrete playback has a failing assertion)
    #[cfg(any(not(kani), verif_assert))]
    vcheck(what, c());
}

/// Reachability guard: must be SATISFIED under Kani (vacuity check).
pub fn vcover() {
    #[cfg(kani)]
    kani::cover!(true, "harness end reachable");
}

/// `vharness!(name, contract(path::to::fn), |s| { body })` or
/// `vharness!(name, plain, |s| { body })` or with `unwind(n)`.
#[macro_export]
macro_rules! vharness {
    ($name:ident, contract($($target:tt)+), |$s:ident| $body:block) => {
        #[cfg(kani)]
        #[kani::proof_for_contract($($target)+)]
        pub fn $name() {
            let mut src__ = $crate::verif::Src::new();
            let $s = &mut src__;
            $body;
            $crate::verif::vcover();
        }
        #[cfg(not(kani))]
        pub fn $name($s: &mut $crate::verif::Src) $body
    };
    ($name:ident, contract($($target:tt)+), unwind($n:expr), |$s:ident| $body:block) => {
        #[cfg(kani)]
        #[kani::proof_for_contract($($target)+)]
        #[kani::unwind($n)]
        pub fn $name() {
            let mut src__ = $crate::verif::Src::new();
            let $s = &mut src__;
            $body;
            $crate::verif::vcover();
        }
        #[cfg(not(kani))]
        pub fn $name($s: &mut $crate::verif::Src) $body
    };
    ($name:ident, plain, |$s:ident| $body:block) => {
        #[cfg(kani)]
        #[kani::proof]
        pub fn $name() {
            let mut src__ = $crate::verif::Src::new();
            let $s = &mut src__;
            $body;
            $crate::verif::vcover();
        }
        #[cfg(not(kani))]
        pub fn $name($s: &mut $crate::verif::Src) $body
    };
    ($name:ident, plain, unwind($n:expr), |$s:ident| $body:block) => {
        #[cfg(kani)]
        #[kani::proof]
        #[kani::unwind($n)]
        pub fn $name() {
            let mut src__ = $crate::verif::Src::new();
            let $s = &mut src__;
            $body;
            $crate::verif::vcover();
        }
        #[cfg(not(kani))]
        pub fn $name($s: &mut $crate::verif::Src) $body
    };
}
