// C04: after an edit nothing of the previous execution (pending RETURN, user functions) can be
// resumed into the edited program
mod common;
use basic::mach::Runtime;
use common::*;
#[test]
fn d10_return() {
    let mut r = Runtime::default();
    r.enter("10 GOSUB 100");
    r.enter("20 PRINT \"AFTER\":END");
    r.enter("100 STOP");
    r.enter("110 RETURN");
    r.enter("RUN");
    let _ = exec(&mut r); // ?BREAK IN 100, stopped inside the subroutine
    r.enter("5 REM EDITED"); // edit the program
    r.enter("RETURN");
    // the pending return address belongs to the old program: it must be gone
    assert_eq!(exec(&mut r), "?RETURN WITHOUT GOSUB\n");
}
#[test]
fn d10_fn() {
    let mut r = Runtime::default();
    r.enter("10 DEF FNA(X)=X+1");
    r.enter("20 PRINT \"DONE\"");
    r.enter("RUN");
    let _ = exec(&mut r);
    r.enter("10 REM NO FUNCTION ANY MORE");
    r.enter("PRINT FNA(1)");
    assert_eq!(exec(&mut r), "?UNDEFINED USER FUNCTION\n");
}
#[test]
fn d10_delete_then_cont() {
    let mut r = Runtime::default();
    r.enter("10 PRINT \"A\"");
    r.enter("20 STOP");
    r.enter("30 PRINT \"B\"");
    r.enter("40 PRINT \"C\"");
    r.enter("RUN");
    let _ = exec(&mut r);
    r.enter("DELETE 30");
    let _ = exec(&mut r);
    r.enter("CONT");
    assert_eq!(exec(&mut r), "?CAN'T CONTINUE\n");
}
