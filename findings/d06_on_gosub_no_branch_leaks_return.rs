// C01/C18: ON x GOSUB with x outside 1..n does not branch and must leave nothing behind
mod common;
use basic::mach::Runtime;
use common::*;
#[test]
fn d06_double_return() {
    let mut r = Runtime::default();
    r.enter("10 GOSUB 100");
    r.enter("20 PRINT \"BACK\":END");
    r.enter("100 ON 5 GOSUB 200");
    r.enter("110 PRINT \"IN SUB\"");
    r.enter("120 RETURN");
    r.enter("200 RETURN");
    r.enter("RUN");
    assert_eq!(exec(&mut r), "IN SUB\nBACK\n");
}
#[test]
fn d06_loop() {
    let mut r = Runtime::default();
    r.enter("10 FOR I=1 TO 3");
    r.enter("20 ON 0 GOSUB 100");
    r.enter("30 NEXT I");
    r.enter("40 PRINT \"DONE\":END");
    r.enter("100 RETURN");
    r.enter("RUN");
    assert_eq!(exec(&mut r), "DONE\n");
}
