// C07: INSTR returns 0 when the pattern is absent; MID$ past the end returns the empty string
mod common;
use basic::mach::Runtime;
use common::*;
fn run(line: &str) -> String {
    let mut r = Runtime::default();
    r.enter(line);
    exec(&mut r)
}
#[test]
fn d07_instr_absent() {
    assert_eq!(run("PRINT INSTR(\"abc\",\"z\")"), " 0 \n");
}
#[test]
fn d07_instr_absent_after_start() {
    assert_eq!(run("PRINT INSTR(2,\"ab\",\"a\")"), " 0 \n");
}
#[test]
fn d07_instr_present() {
    assert_eq!(run("PRINT INSTR(\"abcdeb\",\"b\");INSTR(5,\"abcdeb\",\"b\")"), " 2  6 \n");
}
#[test]
fn d08_mid_past_end() {
    assert_eq!(run("PRINT \"[\";MID$(\"abc\",5);\"]\""), "[]\n");
    assert_eq!(run("PRINT \"[\";MID$(\"ab\",3,1);\"]\""), "[]\n");
}
