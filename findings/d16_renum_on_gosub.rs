// C14: RENUM rewrites every line-number operand, including the targets of ON ... GOSUB
mod common;
use basic::mach::Runtime;
use common::*;
#[test]
fn d16_on_gosub_targets_are_renumbered() {
    let mut r = Runtime::default();
    r.enter("1 ON 2 GOSUB 5,7");
    r.enter("2 ON 1 GOTO 9");
    r.enter("5 PRINT \"FIVE\":RETURN");
    r.enter("7 PRINT \"SEVEN\":RETURN");
    r.enter("9 END");
    r.enter("RENUM");
    let _ = exec(&mut r);
    r.enter("LIST 10");
    assert_eq!(exec(&mut r), "10 ON 2 GOSUB 30,40\n");
    r.enter("LIST 20");
    assert_eq!(exec(&mut r), "20 ON 1 GOTO 50\n");
    r.enter("RUN");
    assert_eq!(exec(&mut r), "SEVEN\n");
}
