// C03: a listing snapshot held by the UI must not make the next edit panic (copy-on-write listing)
mod common;
use basic::mach::Runtime;
use common::*;
#[test]
fn d09_enter_with_snapshot_alive() {
    let mut r = Runtime::default();
    r.enter("10 PRINT 1");
    let snapshot = r.get_listing(); // e.g. held by a line completer or a background save
    r.enter("20 PRINT 2");
    r.enter("10");
    r.enter("LIST");
    assert_eq!(exec(&mut r), "20 PRINT 2\n");
    // the snapshot still shows what it captured
    assert!(snapshot.line(10).is_some());
    assert!(snapshot.line(20).is_none());
}
#[test]
fn d09_delete_with_snapshot_alive() {
    let mut r = Runtime::default();
    r.enter("10 PRINT 1");
    r.enter("20 PRINT 2");
    let _snapshot = r.get_listing();
    r.enter("DELETE 10");
    let _ = exec(&mut r);
    r.enter("LIST");
    assert_eq!(exec(&mut r), "20 PRINT 2\n");
}
