// C20/C01: a program always stops at its end; the direct line placed after it is not part of it
use basic::mach::{Event, Runtime};
fn run_bounded(r: &mut Runtime, calls: usize) -> (String, bool) {
    let mut out = String::new();
    for _ in 0..calls {
        match r.execute(50) {
            Event::Stopped => return (out, true),
            Event::Print(s) => out.push_str(&s),
            Event::Errors(e) => {
                for x in e.iter() {
                    out.push_str(&format!("{}\n", x));
                }
            }
            _ => {}
        }
    }
    (out, false)
}
#[test]
fn d14_if_false_then_end_as_last_line() {
    let mut r = Runtime::default();
    r.enter("10 PRINT 1");
    r.enter("20 IF 0 THEN END");
    let _ = run_bounded(&mut r, 10);
    r.enter("RUN");
    let (out, stopped) = run_bounded(&mut r, 200);
    assert!(stopped, "program never stops: it falls through into the direct RUN; output so far {:?}", &out[..out.len().min(40)]);
    assert!(out.starts_with(" 1 \n") && out.matches(" 1 \n").count() == 1, "{:?}", out);
}
