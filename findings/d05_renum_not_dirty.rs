// C04/C14: after RENUM, RUN n must behave as in a fresh interpreter holding the renumbered listing
mod common;
use basic::mach::Runtime;
use common::*;
#[test]
fn d05() {
    let mut r = Runtime::default();
    r.enter("1 PRINT \"ONE\"");
    r.enter("2 PRINT \"TWO\"");
    r.enter("RENUM 100");
    let _ = exec(&mut r);
    r.enter("LIST");
    assert_eq!(exec(&mut r), "100 PRINT \"ONE\"\n110 PRINT \"TWO\"\n");
    r.enter("RUN 110");
    assert_eq!(exec(&mut r), "TWO\n");
}
