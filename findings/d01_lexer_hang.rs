// C03: no line may make the interpreter loop forever while accepting it
mod common;
use basic::lang::Line;
use std::sync::mpsc;
use std::time::Duration;
fn lex_with_timeout(src: &'static str) -> Option<String> {
    let (tx, rx) = mpsc::channel();
    std::thread::spawn(move || {
        let l = Line::new(src);
        let _ = tx.send(l.to_string());
    });
    rx.recv_timeout(Duration::from_secs(5)).ok()
}
#[test]
fn d01_double_exponent_letter() {
    assert!(lex_with_timeout("PRINT 1EE").is_some(), "lexer does not return on 1EE");
}
#[test]
fn d01_exponent_then_dot() {
    assert!(lex_with_timeout("PRINT 1E.5").is_some(), "lexer does not return on 1E.5");
}
#[test]
fn d01_exponent_then_suffix() {
    assert!(lex_with_timeout("PRINT 1E!").is_some(), "lexer does not return on 1E!");
}
