// C16: outside strings and remarks the meaning of a line does not depend on letter case
mod common;
use basic::lang::Line;
#[test]
fn d13() {
    let upper = Line::new("PRINT 1E5E5");
    let lower = Line::new("PRINT 1e5e5");
    assert_eq!(upper.to_string(), lower.to_string());
}
