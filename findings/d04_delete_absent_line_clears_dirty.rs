// C04: edit, then a bare number of an absent line, then RUN must run the listing (not the stale compile)
mod common;
use basic::mach::Runtime;
use common::*;
#[test]
fn d04() {
    let mut r = Runtime::default();
    r.enter("10 PRINT \"OLD\"");
    r.enter("RUN");
    assert_eq!(exec(&mut r), "OLD\n");
    r.enter("10 PRINT \"NEW\"");
    r.enter("20"); // deleting a line that does not exist
    r.enter("RUN");
    assert_eq!(exec(&mut r), "NEW\n");
}
