// C03: an INPUT reply that does not fit on the (nearly full) stack is a BASIC error, not a crash
mod common;
use basic::mach::{Event, Runtime};
#[test]
fn d15_reply_overflows_stack() {
    let mut r = Runtime::default();
    r.enter("10 I=I+1");
    r.enter("20 IF I<65532 THEN GOSUB 10");
    r.enter("30 INPUT A");
    r.enter("RUN");
    let mut asked = false;
    for _ in 0..2000 {
        match r.execute(5000) {
            Event::Input(..) => {
                asked = true;
                break;
            }
            Event::Stopped => break,
            _ => {}
        }
    }
    assert!(asked, "program did not reach INPUT");
    r.enter("5"); // must not panic
    let mut out = String::new();
    for _ in 0..50 {
        match r.execute(5000) {
            Event::Errors(e) => {
                for x in e.iter() {
                    out.push_str(&format!("{}\n", x));
                }
            }
            Event::Stopped => break,
            _ => {}
        }
    }
    assert!(out.contains("OUT OF MEMORY"), "{:?}", out);
}
