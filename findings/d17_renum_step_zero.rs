// C14: RENUM either fails and changes nothing, or renumbers injectively -- a step of 0 must not collapse the program
mod common;
use basic::mach::Runtime;
use common::*;
#[test]
fn d17_renum_step_zero_keeps_the_program() {
    let mut r = Runtime::default();
    r.enter("10 PRINT 1");
    r.enter("20 PRINT 2");
    r.enter("30 PRINT 3");
    r.enter("RENUM 100,0,0");
    let out = exec(&mut r);
    r.enter("LIST");
    let listing = exec(&mut r);
    // either refused (program unchanged) or three lines with three different numbers
    assert_eq!(listing.lines().count(), 3, "RENUM 100,0,0 said {:?} and left {:?}", out, listing);
    assert!(out.contains("ILLEGAL FUNCTION CALL"), "{:?}", out);
    assert_eq!(listing, "10 PRINT 1\n20 PRINT 2\n30 PRINT 3\n");
}
