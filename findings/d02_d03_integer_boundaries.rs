// C08: Integer arithmetic is exact or OVERFLOW / DIVISION BY ZERO, never a crash or a wrong code
mod common;
use basic::mach::Runtime;
use common::*;
fn run(line: &str) -> String {
    let mut r = Runtime::default();
    r.enter(line);
    exec(&mut r)
}
#[test]
fn d02_abs() {
    assert_eq!(run("A%=-32767-1:PRINT ABS(A%)"), "?OVERFLOW\n");
}
#[test]
fn d02_neg() {
    assert_eq!(run("A%=-32767-1:PRINT -A%"), "?OVERFLOW\n");
}
#[test]
fn d03_divint() {
    assert_eq!(run("A%=-32767-1:PRINT A%\\-1"), "?OVERFLOW\n");
}
#[test]
fn d03_mod() {
    assert_eq!(run("A%=-32767-1:PRINT A% MOD -1"), " 0 \n");
}
